#!/bin/bash
# usage: benign_eval.sh <worktree-id> <PROP> [<PROP>...]
# A behaviour-preserving change written by a sub-agent: confirm the unedited test suite passes with it and its own
# equivalence script passes, then run the checks of the given properties against a scratch copy with the change.
# Every check must exit 0 (no VIOLATION, no HARNESS-ERROR).  Results in /verif/seeded/benign/<id>/.
set -u
WID="$1"; shift
W=/tmp/wt-$WID
OUT=/verif/seeded/benign/$WID
mkdir -p "$OUT"
cp "$W/out/patch.diff" "$W/out/equiv.py" "$OUT"/ 2>/dev/null
cp "$W/out/meta.json" "$OUT/agent_meta.json" 2>/dev/null
X="$W/.xdg-confirm"; mkdir -p "$X"
( export PYTHONPATH="$W" XDG_CACHE_HOME="$X" MPLBACKEND=Agg; cd "$W"
  git diff --quiet -- pyiga scripts setup.py && git apply out/patch.diff
  if grep -q '^diff.*\.\(pyx\|pxi\|pxd\)' "$OUT/patch.diff"; then /venv/bin/python setup.py build_ext --inplace -q >/dev/null 2>&1; fi
  timeout 1800 /venv/bin/python out/equiv.py > "$OUT/equiv.log" 2>&1; echo $? > "$OUT/equiv.rc"
  timeout 2400 /venv/bin/python -m pytest -q -p no:cacheprovider --timeout=900 > "$OUT/tests_with.log" 2>&1; echo $? > "$OUT/tests.rc" )
RES=""
for PROP in "$@"; do
  /verif/tools/mutant.sh "$OUT/patch.diff" "$PROP" > "$OUT/check_$PROP.log" 2>&1; RES="$RES $PROP:$?"
done
python3 - <<PY
import json
d={"benign_id":"$WID","equiv_rc":int(open("$OUT/equiv.rc").read()),"tests_rc":int(open("$OUT/tests.rc").read()),
   "tests_summary":open("$OUT/tests_with.log").read().strip().splitlines()[-1] if open("$OUT/tests_with.log").read().strip() else "",
   "checks":{x.split(':')[0]:int(x.split(':')[1]) for x in "$RES".split()}}
d["all_green"]=all(v==0 for v in d["checks"].values())
try: d["agent"]=json.load(open("$OUT/agent_meta.json"))
except Exception: d["agent"]=None
json.dump(d,open("$OUT/meta.json","w"),indent=1)
print(json.dumps({k:d[k] for k in d if k!="agent"}))
PY
sed -i 's/\x1b\[[0-9;]*m//g' "$OUT"/*.log; for f in "$OUT"/*.log; do tail -c 5000 "$f" > "$f.t" && mv "$f.t" "$f"; done
