#!/usr/bin/env python3
"""usage: mk_task_benign.py <id> <PROP> <focus text>  -- scratch worktree + out/TASK.md asking for a CORRECT,
behaviour-preserving change (to test that the checks raise no alarm on code where the property holds)."""
import json, subprocess, sys
wid, prop, focus = sys.argv[1], sys.argv[2], sys.argv[3]
W = '/tmp/wt-' + wid
subprocess.check_call(['/verif/tools/mk_worktree.sh', wid], stdout=subprocess.DEVNULL)
d = [json.loads(l) for l in open('/verif/properties.jsonl') if json.loads(l)['id'] == prop][0]
txt = f"""# Task: write a realistic, CORRECT refactoring / optimisation of the library c-f-h/pyiga

You work ONLY inside the scratch git worktree `{W}` (a checkout of the pyiga repository with its Cython
extensions already built in place). Never read or write `/repo` or `/verif`. Python is `/venv/bin/python`
(numpy, scipy, Cython, pytest installed; no network). Always run with
`PYTHONPATH={W} XDG_CACHE_HOME={W}/.xdg MPLBACKEND=Agg` so that this worktree's `pyiga` is imported.

## The property that MUST KEEP HOLDING (semantic guarantee users rely on)

**{d['id']} - {d['title']}**

{d['statement']}

Quantified over: {d['quantifier']['text']}

Anchored code: {json.dumps(d['anchors'], indent=1)}

## What to produce

A substantial but **behaviour-preserving** source change in or near: **{focus}** -- the kind of thing a maintainer
commits as a refactoring, clean-up, performance optimisation or robustness improvement: restructure the
implementation, rename/move PRIVATE helpers and private attributes, change internal data structures (e.g. sets ->
sorted arrays, dict -> list, lazily computed caches that ARE invalidated correctly, vectorised loops), change the order
of internal computations, add internal consistency assertions that hold, reorganise temporary files/directories -- as
long as every documented, user-visible behaviour and the property above are preserved *for all inputs, histories,
schedules and crash points*, not only for the tests. Public function names, signatures, return values and documented
attributes stay as they are. Aim for 40-200 changed lines; it should look different enough from the original that a
naive regression checker keyed on implementation details would trip over it, while a checker that judges the property
itself must stay green.

Deliberately EXPLOIT the freedom that the property and the documentation leave open (only what they state must keep
holding): e.g. an undocumented numbering/ordering may change as long as it stays a valid one, the number of internal
rebuilds/retries or the layout and names of temporary files may change, a different but equally valid triangle/half of
a symmetric object may be the one that is computed, work may be split differently between threads, a cache may be keyed
on something else as long as it never returns a wrong result, error conditions that were an accident of the old
implementation may be reported differently.

Requirements:
1. The entire existing test suite still passes:
   `cd {W} && PYTHONPATH={W} XDG_CACHE_HOME={W}/.xdg MPLBACKEND=Agg /venv/bin/python -m pytest -q -p no:cacheprovider --timeout=900`
2. You have convinced yourself (write a randomised comparison script `out/equiv.py` that runs the new code against
   independent reference computations or against recorded outputs of the original code on a few hundred random
   inputs/histories, exit 0 = equivalent) that behaviour is unchanged.
3. If you change a `.pyx`/`.pxi` file or the templates in `pyiga/codegen/cython.py`, keep generated and shipped files
   consistent (`scripts/generate-assemblers.py`) and rebuild with `cd {W} && /venv/bin/python setup.py build_ext --inplace -q`.

Other agents work in sibling worktrees of the same repository at the same time: NEVER use `git stash`; NEVER use
`pkill`/`killall`.

Deliverables in `{W}/out/`: `patch.diff` (`git -C {W} diff -- pyiga scripts setup.py > out/patch.diff`), `equiv.py`,
and `meta.json` = {{"property": "{prop}", "kind": "benign", "summary": "<what was changed>", "files_changed": [...],
"ran": ["<commands and outcomes>"]}}. Leave the worktree with the change applied. Final answer: a 5-line summary.
"""
open(W + '/out/TASK.md', 'w').write(txt)
print(W + '/out/TASK.md')
