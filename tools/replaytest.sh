#!/bin/bash
# usage: replaytest.sh <patch.diff> <PROP> [check args]  -- find a violation on a scratch copy with the patch, then replay it twice
set -u
PATCH="$1"; PROP="$2"; shift 2
R=$(mktemp -d /tmp/vsim-mut-XXXXXX)
rsync -a --exclude .git /repo/ "$R"/
(cd "$R" && patch -p1 -s < "$PATCH") || { echo "patch failed"; rm -rf "$R"; exit 3; }
export VSIM_OUT="$R/.vsim-out"; OUT=$(VERIF_REPO="$R" timeout 1800 /venv/bin/python /verif/check "$PROP" "$@" 2>&1 | grep -v "conda\|WARNING")
F=$(echo "$OUT" | grep "^VIOLATION" | head -1 | sed 's/.*replay=//')
echo "first replay file: $F"
if [ -n "$F" ]; then
  for i in 1 2; do VERIF_REPO="$R" timeout 900 /venv/bin/python /verif/check replay "$F" 2>&1 | grep -v "conda\|WARNING" | head -2 | cut -c1-200; done
  python3 -c "
import json; d=json.load(open('$F')); print('minimised:', d.get('minimised'), 'shrink executions:', d.get('shrink_executions'), 'choices sizes:', {k:len(v) for k,v in d['choices'].items()}); print('trace:', json.dumps(d.get('trace'))[:700])"
  echo "--- replay on the UNCHANGED tree (must not reproduce):"
  timeout 900 /venv/bin/python /verif/check replay "$F" 2>&1 | grep -v "conda\|WARNING" | head -1 | cut -c1-200
fi
rm -rf "$R"
