#!/bin/bash
# usage: first_eval.sh <seeded-id> <PROP> [check args]  -- runs the property's check AS IT WAS at the commit checked out in
# /tmp/verif-base (the machinery before it was strengthened in response to this wave) against a scratch copy of /repo
# with the seeded change applied.  Prints rc (1 = caught).
set -u
ID="$1"; PROP="$2"; shift 2
R=$(mktemp -d /tmp/vsim-fe-XXXXXX)
rsync -a --exclude .git /repo/ "$R"/
(cd "$R" && patch -p1 -s < /verif/seeded/$ID/patch.diff) || { echo "patch failed"; rm -rf "$R"; exit 3; }
VSIM_OUT="$R/.vsim-out" VERIF_REPO="$R" timeout 1800 /venv/bin/python /tmp/verif-base/check "$PROP" "$@" 2>&1 | grep -v "conda\|WARNING" | tail -6 | cut -c1-300
rc=${PIPESTATUS[0]}
rm -rf "$R"
echo "first-eval $ID rc=$rc"
exit $rc
