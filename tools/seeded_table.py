#!/usr/bin/env python3
"""Regenerate /verif/seeded/README.md from seeded/*/meta.json."""
import glob, json, os
rows = []
for f in sorted(glob.glob('/verif/seeded/*/meta.json')):
    d = json.load(open(f))
    a = d.get('agent') or {}
    rows.append((d['seeded_id'], d['property'], (a.get('summary') or '')[:260].replace('\n', ' ').replace('|', '/'),
                 (a.get('needs') or '')[:220].replace('\n', ' ').replace('|', '/') if isinstance(a.get('needs'), str) else str(a.get('needs'))[:220],
                 'yes' if d.get('confirmed') else 'NO', 'caught' if d.get('caught') else 'MISSED',
                 d.get('first_run', ''), d.get('note', '')))
out = ['# Independently seeded changes', '',
       'Each directory holds `patch.diff` (the change), `demo.py` (fails with the change, passes without), `meta.json`',
       '(what it breaks, what it needs to manifest, what was run) and the logs of my confirmation. The changes were written by',
       'sub-agents that saw only the property text and their own scratch worktree of /repo. `confirmed` = I re-ran: demo passes',
       'without the change, fails with it, the unedited test suite passes with it. `check` = result of the property\'s check',
       'run against a scratch copy of /repo with the change applied (`tools/confirm_seeded.sh`).', '',
       '| id | property | change | needs | confirmed | check | first evaluation | note |', '|---|---|---|---|---|---|---|---|']
for r in rows:
    out.append('| ' + ' | '.join(str(x) for x in r) + ' |')
out += ['', '# Benign (behaviour-preserving) changes', '',
        'Written by sub-agents as realistic refactorings that keep the property; evaluated with `tools/benign_eval.sh`:',
        'the unedited test suite and the author\'s own equivalence script pass, and every listed check must exit 0.', '',
        '| id | change | tests | checks | note |', '|---|---|---|---|---|']
for f in sorted(glob.glob('/verif/seeded/benign/*/meta.json')):
    d = json.load(open(f))
    a = d.get('agent') or {}
    out.append('| %s | %s | %s | %s | %s |' % (d['benign_id'], (a.get('summary') or '')[:300].replace('\n', ' ').replace('|', '/'),
               d.get('tests_summary', '')[:40], ', '.join('%s: %s' % (k, 'green' if v == 0 else 'rc=%d' % v) for k, v in d['checks'].items()),
               (d.get('note') or '').replace('\n', ' ').replace('|', '/')))
open('/verif/seeded/README.md', 'w').write('\n'.join(out) + '\n')
print('\n'.join(out[-len(rows):]))
