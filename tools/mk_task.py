#!/usr/bin/env python3
"""usage: mk_task.py <id> <PROP> <focus text>  -- creates /tmp/wt-<id> (scratch worktree) and writes out/TASK.md
containing ONLY the property text and working instructions (nothing from /verif)."""
import json, subprocess, sys
wid, prop, focus = sys.argv[1], sys.argv[2], sys.argv[3]
W = '/tmp/wt-' + wid
subprocess.check_call(['/verif/tools/mk_worktree.sh', wid], stdout=subprocess.DEVNULL)
d = [json.loads(l) for l in open('/verif/properties.jsonl') if json.loads(l)['id'] == prop][0]
txt = f"""# Task: write a realistic change to the library c-f-h/pyiga that breaks one stated property

You work ONLY inside the scratch git worktree `{W}` (a checkout of the pyiga repository with its Cython
extensions already built in place). Never read or write `/repo` or `/verif`. Python is `/venv/bin/python`
(numpy, scipy, Cython, pytest installed; no network). Always run with
`PYTHONPATH={W} XDG_CACHE_HOME={W}/.xdg MPLBACKEND=Agg` so that this worktree's `pyiga` is imported and its
private compile cache is used (check with `python -c "import pyiga; print(pyiga.__file__)"`).

## The property (semantic guarantee users rely on)

**{d['id']} - {d['title']}**

{d['statement']}

Quantified over: {d['quantifier']['text']}

Why the existing tests cannot settle it: {d['why_tests_cant']}

Anchored code: {json.dumps(d['anchors'], indent=1)}

## What to produce

A *plausible, realistic* source change to pyiga (the kind of thing a maintainer might commit as an optimisation,
refactoring, clean-up or small feature - not sabotage that looks like sabotage) such that

1. pyiga still builds/imports and the **entire existing test suite still passes** with the change:
   `cd {W} && PYTHONPATH={W} XDG_CACHE_HOME={W}/.xdg MPLBACKEND=Agg /venv/bin/python -m pytest -q -p no:cacheprovider --timeout=900`
   (191 tests; takes 1-10 minutes). Do not edit the tests.
2. the property above is **violated** with the change, but only under something specific: a particular interleaving,
   a crash or fault at a particular point, a multi-step sequence of operations, an unusual (but valid) input, or two
   cooperating sites that each look fine alone. Changes that ordinary use would expose at once are NOT wanted.
3. Suggested focus for this change (pick a bug in or near this mechanism; if it is impossible there, choose another
   mechanism of the anchored code): **{focus}**

If you change a `.pyx`/`.pxi` file or the templates in `pyiga/codegen/cython.py` that generate `pyiga/genericasm.pxi`
/ `pyiga/assemblers.pyx` (see `scripts/generate-assemblers.py`), keep generated and shipped files consistent and
rebuild with `cd {W} && /venv/bin/python setup.py build_ext --inplace -q`.

Deliverables, all in `{W}/out/`:

* `patch.diff` - `git -C {W} diff -- pyiga scripts setup.py > out/patch.diff` (source files only, no build output;
  must apply with `git apply` to a clean checkout of the same commit).
* `demo.py` - a self-contained program (run as `/venv/bin/python out/demo.py` with the environment above, cwd `{W}`)
  that exits 0 on the unmodified tree and exits non-zero (assertion failure, wrong result detected, crash) with the
  change applied. It must demonstrate a violation of the *property as stated* (compare against an independent
  definition / reference, not merely against the old code's output). Keep it under ~2 minutes of run time.
* `meta.json` - {{"property": "{prop}", "summary": "<what was changed and why it looks innocent>", "needs": "<what
  exactly is needed for the violation to manifest>", "files_changed": [...], "ran": ["<commands you ran and their
  outcome: demo without change, demo with change, test suite with change>"]}}

Other agents work in sibling worktrees of the same repository at the same time: NEVER use `git stash` (the stash is
shared by all worktrees) - to test on the unmodified tree use `git diff > out/patch.diff; git apply -R out/patch.diff;
...; git apply out/patch.diff`. NEVER use `pkill`/`killall` (kill only PIDs you started yourself).

Verify all three claims yourself (demo passes without, fails with, test suite passes with) before finishing.
Leave the worktree with the change applied. Final answer: a 5-line summary.
"""
open(W + '/out/TASK.md', 'w').write(txt)
print(W + '/out/TASK.md')
