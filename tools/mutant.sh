#!/bin/bash
# usage: mutant.sh <patch.diff | -e 'python snippet editing files under $R'> <PROP> [extra check args...]
# Runs a check against a scratch copy of /repo with a change applied; removes the copy afterwards.
set -u
PATCH="$1"; shift
if [ "$PATCH" = "-e" ]; then SNIP="$1"; shift; fi
PROP="$1"; shift
R=$(mktemp -d /tmp/vsim-mut-XXXXXX)
rsync -a --exclude .git /repo/ "$R"/
if [ "$PATCH" = "-e" ]; then
  R="$R" /venv/bin/python -c "$SNIP" || { echo "edit failed"; rm -rf "$R"; exit 3; }
else
  (cd "$R" && patch -p1 -s < "$PATCH") || { echo "patch failed"; rm -rf "$R"; exit 3; }
fi
VSIM_OUT="$R/.vsim-out" VERIF_REPO="$R" timeout 1800 /venv/bin/python /verif/check "$PROP" "$@" 2>&1 | grep -v "conda\|WARNING"
rc=${PIPESTATUS[0]}
rm -rf "$R"
echo "mutant rc=$rc"
exit $rc
