#!/bin/bash
# usage: mk_worktree.sh <id>   -> /tmp/wt-<id>: scratch git worktree of /repo HEAD with the built extensions copied in
set -eu
W=/tmp/wt-$1
git -C /repo worktree add -q --detach "$W" HEAD
cp /repo/pyiga/*.so "$W/pyiga/" 2>/dev/null || true
mkdir -p "$W/out" "$W/.xdg"
echo "$W"
