#!/usr/bin/env python3
"""usage: set_first.py <id> caught|MISSED [note]  -- record the first-evaluation result in seeded/<id>/meta.json"""
import json, sys
wid, res = sys.argv[1], sys.argv[2]
note = sys.argv[3] if len(sys.argv) > 3 else ''
p = '/verif/seeded/%s/meta.json' % wid
d = json.load(open(p))
d['first_run'] = res
if note:
    d['note'] = note
if res == 'MISSED' and d.get('caught'):
    d['caught_after_strengthening'] = True
json.dump(d, open(p, 'w'), indent=1)
