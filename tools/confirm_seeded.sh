#!/bin/bash
# usage: confirm_seeded.sh <worktree-id> <PROP> [check args...]
# Confirms an independently seeded change (tests pass with it, demo fails with it, demo passes without it),
# then runs the property's check against a scratch copy with the change; stores everything in /verif/seeded/<id>/.
set -u
WID="$1"; PROP="$2"; shift 2
W=/tmp/wt-$WID
OUT=/verif/seeded/$WID
mkdir -p "$OUT"
cp "$W/out/patch.diff" "$W/out/demo.py" "$OUT"/ || exit 3
cp "$W/out/meta.json" "$OUT/agent_meta.json" 2>/dev/null
X="$W/.xdg-confirm"; mkdir -p "$X"
export PYTHONPATH="$W" XDG_CACHE_HOME="$X" MPLBACKEND=Agg
cd "$W"
git checkout -q -- . 2>/dev/null
NEEDBUILD=$(grep -c '^diff.*\.\(pyx\|pxi\|pxd\)' "$OUT/patch.diff")
build() { if [ "$NEEDBUILD" != "0" ]; then (cd "$W" && /venv/bin/python setup.py build_ext --inplace -q >/dev/null 2>&1); fi; }
build
timeout 900 /venv/bin/python "$W/out/demo.py" >"$OUT/demo_without.log" 2>&1; RC0=$?
git apply "$OUT/patch.diff" || { echo "patch does not apply"; exit 3; }
build
timeout 900 /venv/bin/python "$W/out/demo.py" >"$OUT/demo_with.log" 2>&1; RC1=$?
timeout 1800 /venv/bin/python -m pytest -q -p no:cacheprovider --timeout=900 >"$OUT/tests_with.log" 2>&1; RCT=$?
TESTS=$(tail -1 "$OUT/tests_with.log")
cd /verif
unset PYTHONPATH XDG_CACHE_HOME
/verif/tools/mutant.sh "$OUT/patch.diff" "$PROP" "$@" > "$OUT/check_$PROP.log" 2>&1; RCC=$?
python3 - <<PY
import json
d={"property":"$PROP","seeded_id":"$WID","demo_rc_without_change":$RC0,"demo_rc_with_change":$RC1,"tests_rc_with_change":$RCT,
   "tests_summary":"""$TESTS""".strip(),"check_cmd":"tools/mutant.sh seeded/$WID/patch.diff $PROP $*","check_rc":$RCC,
   "confirmed": ($RC0==0 and $RC1!=0 and $RCT==0), "caught": $RCC==1}
try: d["agent"]=json.load(open("$OUT/agent_meta.json"))
except Exception as e: d["agent"]=None
json.dump(d, open("$OUT/meta.json","w"), indent=1)
print(json.dumps({k:d[k] for k in d if k!="agent"}))
PY
tail -2 "$OUT/check_$PROP.log" | cut -c1-200
sed -i 's/\x1b\[[0-9;]*m//g' "$OUT"/*.log; for f in "$OUT"/*.log; do tail -c 6000 "$f" > "$f.t" && mv "$f.t" "$f"; done
