"""cachesim -- C20: the on-disk compile cache under crashes and concurrent
compilation.

Layer A (this file): k simulated processes, each a private instance of the REAL
pyiga/compile.py (own module globals, own in-process caches, own sys.path and
sys.modules), share one real cache directory.  File access (`open`, `os`,
`tempfile`, `shutil`), the import system and the three tool-chain entry points
(`cythonize`, build_ext.run, import_module) are seams owned by the simulator:
every write is split into seeded chunks and every mutating call is a yield
point of the baton scheduler, where the next process is drawn from the seed and
faults are injected (SIGKILL at a yield point incl. torn writes, ENOSPC,
clock steps / coarse mtimes, stale leftovers).  The tool-chain is a stub that
reproduces the file-level contract measured on the real tool-chain (in-place
writes, timestamp-based up-to-date decisions, import of truncated shared
objects kills the interpreter); Layer B (cachesim_real.py) runs the real
tool-chain and checks that the stub's contract table agrees with it.
"""
import hashlib
import importlib.util
import os
import shutil as _shutil
import stat as _stat
import sys as _sys
import sysconfig
import tempfile as _tempfile
import types

from . import env
from .sched import Sched, Killed, InterpreterCrash

env.setup_import()

EXT = sysconfig.get_config_var('EXT_SUFFIX') or '.so'

RULE = {'C20': 'Layer A: a run = seeded family (concurrent | crash | mixed | enospc | clock) with 1-16 simulated '
        'processes (instances of the real compile.py) issuing 1-2 requests each over 1-3 sources into one cache '
        'directory under a seeded schedule at syscall granularity (every chunk write / rename / link / unlink / '
        'mkdir / tool-chain stage is a yield point) with seeded faults, followed by a fault-free recovery phase of '
        'fresh processes.  non-trivial = at least two processes were interleaved inside a build (a context switch '
        'between two yield points of one build) or at least one fault fired inside a build; distinct = distinct '
        'digest of (family, schedule order, fault trace).  Layer B scenarios (real Cython/gcc/ld/dlopen in real '
        'subprocesses, strace-injected SIGKILL at the N-th write/link/rename, gated stage-level concurrency) are '
        'counted separately in coverage.layer_b'}
REAL_VS_STUB = {'C20': {
    'real': ['pyiga/compile.py control flow (compile_cython_module, _compile_cython_module_nocache, naming by SHAKE-128), '
             'one independent module instance per simulated process', 'the file system (a real scratch directory)',
             'Layer B: real Cython, gcc, ld, dlopen, real processes, real SIGKILL via strace injection'],
    'stub': ['Layer A: cythonize / build_ext.run / import_module replaced by a contract stub (timestamps, in-place writes, '
             'truncated .so => fatal signal); process scheduling and clock are simulated'],
    'model': ['dict source-digest -> module; write-once monitor over final-name shared objects']}}
ASSUMPTIONS = {'C20': ['crash model = process kill (SIGKILL, compiler failure, ENOSPC, interrupt): what the page cache keeps; '
                       'power loss with reordered metadata is out of scope',
                       'Layer A trusts the stub contract as far as the Layer B conformance table agrees with it',
                       'clock steps / coarse mtime granularity are explored in their own family only']}
SHRINK_ORDER = ['fault', 'sched', 'cfg', 'chunks', 'clock']

HDR_LEN = 40


def preimport():
    import pyiga.compile  # noqa  (warms sys.modules: numpy, Cython, assemblers)


def sha(b):
    if isinstance(b, str):
        b = b.encode()
    return hashlib.sha256(b).hexdigest()[:16]


# ----------------------------------------------------------------------------
# the simulated world

class World:
    def __init__(self, ctx, root):
        self.ctx = ctx
        self.root = root
        self.moddir = os.path.join(root, 'pyiga', 'modules')
        self.now = 1000.0
        self.gran = 0           # mtime granularity (0 = exact)
        self.chunks = ctx.ch.stream('chunks')
        self.enospc = {}        # actor name -> remaining failing writes
        self.nonce = 0
        self.completed = {}     # final-name .so path -> bytes at first completion
        self.events = []
        self.durations = False  # tool-chain stages take realistic (simulated) time

    def mtime(self):
        if self.gran:
            return float(int(self.now / self.gran) * self.gran)
        return self.now

    def stamp(self, path):
        try:
            t = self.mtime()
            os.utime(path, (t, t))
        except OSError:
            pass

    def stamp_parent(self, path):
        # the kernel updates a directory's mtime (with the REAL clock) whenever an entry is added or
        # removed; keep directory mtimes on the simulated clock as well
        self.stamp(os.path.dirname(os.path.abspath(str(path))))

    def stage(self, actor, name, lo, hi):
        """a tool-chain stage that takes simulated time; other processes may run meanwhile"""
        if not self.durations:
            return
        d = lo + (hi - lo) * self.chunks.choice(8) / 7.0
        self.now += d / 2
        actor.yield_point(name + '-running')
        self.now += d / 2


class FileProxy:
    """Write-mode file object on a real file descriptor (so truncation and
    unlinking by other processes behave as in the kernel); every chunk written
    is a yield point."""

    def __init__(self, world, actor, path, mode):
        self.w, self.a, self.path = world, actor, path
        self.binary = 'b' in mode
        self.closed = False
        self.name = path
        self.fd = None
        actor.yield_point('open:' + os.path.basename(path))
        flags = os.O_WRONLY | os.O_CREAT | (os.O_APPEND if 'a' in mode else os.O_TRUNC)
        if 'x' in mode:
            flags |= os.O_EXCL
        existed = os.path.exists(path)
        self.fd = os.open(path, flags, 0o644)
        track_fd(actor, self.fd)
        self._stamp()
        if not existed:
            self.w.stamp_parent(path)

    def _stamp(self):
        try:
            t = self.w.mtime()
            os.utime(self.fd, (t, t))
        except OSError:
            pass

    def write(self, data):
        self.a.check_alive()
        raw = data if isinstance(data, (bytes, bytearray)) else data.encode()
        n = len(raw)
        nch = 1 + self.w.chunks.choice(3) if n > 1 else 1
        cuts = sorted(set(self.w.chunks.choice(n) for _ in range(nch - 1))) if n > 1 else []
        pos = 0
        for c in cuts + [n]:
            if c <= pos:
                continue
            self.a.yield_point('write:' + os.path.basename(self.path))
            left = self.w.enospc.get(self.a.name, 0)
            if left > 0:
                self.w.enospc[self.a.name] = left - 1
                self.w.ctx.count('fault.enospc.fired')
                raise OSError(28, 'No space left on device', self.path)
            os.write(self.fd, raw[pos:c])
            self._stamp()
            pos = c
        return len(data)

    def writelines(self, lines):
        for ln in lines:
            self.write(ln)

    def flush(self):
        pass

    def fileno(self):
        return self.fd

    def close(self):
        if not self.closed:
            self.closed = True
            try:
                if self.fd is not None and self.fd in getattr(self.a, 'fds', ()):
                    # (a descriptor that was reaped at the death of its process must not be closed again:
                    # the number may have been re-used)
                    self.a.fds.discard(self.fd)
                    os.close(self.fd)
            except OSError:
                pass

    def __del__(self):
        self.close()

    def __enter__(self):
        return self

    def __exit__(self, *exc):
        self.close()
        return False


def make_open(world, actor):
    def sim_open(path, mode='r', *a, **kw):
        actor.check_alive()
        if any(c in mode for c in 'wax+'):
            if 'r' in mode and '+' in mode:
                raise NotImplementedError('r+ not modelled')
            return FileProxy(world, actor, os.fspath(path), mode)
        return open(path, mode, *a, **kw)
    return sim_open


def track_fd(actor, fd):
    """file descriptors belong to the simulated process: when it dies (kill or exit) the kernel closes them, which
    also releases flock()/lockf() locks held through them"""
    if not hasattr(actor, 'fds'):
        actor.fds = set()
    actor.fds.add(fd)


def reap_fds(actor):
    for fd in list(getattr(actor, 'fds', ())):
        try:
            os.close(fd)
        except OSError:
            pass
    if hasattr(actor, 'fds'):
        actor.fds.clear()


class OsFacade:
    """Forwards everything to the real os module; mutating calls are yield points."""
    _MUT = ('rename', 'replace', 'link', 'symlink', 'unlink', 'remove', 'rmdir', 'mkdir', 'makedirs',
            'utime', 'chmod', 'truncate')

    def __init__(self, world, actor):
        self._w, self._a = world, actor
        self.path = os.path

    def __getattr__(self, name):
        real = getattr(os, name)
        if name == 'open':
            a = self._a

            def tracked_open(*args, **kw):
                a.check_alive()
                fd = real(*args, **kw)
                track_fd(a, fd)
                return fd
            return tracked_open
        if name == 'close':
            a = self._a

            def tracked_close(fd):
                getattr(a, 'fds', set()).discard(fd)
                return real(fd)
            return tracked_close
        if name in OsFacade._MUT:
            w, a = self._w, self._a

            def mediated(*args, **kw):
                a.yield_point('%s:%s' % (name, os.path.basename(str(args[0])) if args else ''))
                if name in ('link', 'symlink', 'mkdir', 'makedirs', 'rename', 'replace') and w.enospc.get(a.name, 0) > 0:
                    w.enospc[a.name] -= 1
                    w.ctx.count('fault.enospc.fired')
                    w.ctx.count('fault.enospc.at.' + name)
                    raise OSError(28, 'No space left on device', str(args[-1]))
                r = real(*args, **kw)
                if name in ('rename', 'replace', 'link', 'symlink') and len(args) > 1:
                    w.events.append((name, os.path.basename(str(args[1]))))
                    w.stamp_parent(args[1])
                if name in ('mkdir', 'makedirs'):
                    w.stamp(args[0])
                if name in ('rename', 'replace', 'unlink', 'remove', 'rmdir', 'mkdir', 'makedirs'):
                    w.stamp_parent(args[0])
                return r
            return mediated
        return real


class TempfileFacade:
    def __init__(self, world, actor):
        self._w, self._a = world, actor
        self._n = 0

    def _name(self, prefix, suffix):
        self._n += 1
        return '%s%s_%d%s' % (prefix or 'tmp', self._a.name, self._n, suffix or '')

    def mkdtemp(self, suffix=None, prefix=None, dir=None):
        self._a.yield_point('mkdtemp')
        if self._w.enospc.get(self._a.name, 0) > 0:
            self._w.enospc[self._a.name] -= 1
            self._w.ctx.count('fault.enospc.fired')
            self._w.ctx.count('fault.enospc.at.mkdtemp')
            raise OSError(28, 'No space left on device', str(dir))
        d = os.path.join(dir or self._w.root, self._name(prefix, suffix))
        os.mkdir(d, 0o700)
        self._w.stamp(d)
        self._w.stamp_parent(d)
        return d

    def mkstemp(self, suffix=None, prefix=None, dir=None, text=False):
        self._a.yield_point('mkstemp')
        p = os.path.join(dir or self._w.root, self._name(prefix, suffix))
        fd = os.open(p, os.O_RDWR | os.O_CREAT | os.O_EXCL, 0o600)
        track_fd(self._a, fd)
        self._w.stamp(p)
        return fd, p

    def NamedTemporaryFile(self, mode='w+b', suffix=None, prefix=None, dir=None, delete=True, **kw):
        p = os.path.join(dir or self._w.root, self._name(prefix, suffix))
        f = FileProxy(self._w, self._a, p, mode.replace('+', ''))
        f.name = p
        return f

    def TemporaryDirectory(self, suffix=None, prefix=None, dir=None, **kw):
        outer = self

        class _TD:
            def __init__(s):
                s.name = outer.mkdtemp(suffix, prefix, dir)

            def __enter__(s):
                return s.name

            def __exit__(s, *e):
                s.cleanup()
                return False

            def cleanup(s):
                ShutilFacade(outer._w, outer._a).rmtree(s.name, ignore_errors=True)
        return _TD()

    def gettempdir(self):
        return self._w.root

    def __getattr__(self, name):
        return getattr(_tempfile, name)


class ShutilFacade:
    def __init__(self, world, actor):
        self._w, self._a = world, actor

    def rmtree(self, path, ignore_errors=False, **kw):
        # removal is not atomic: entries disappear one by one
        self._a.yield_point('rmtree:' + os.path.basename(str(path)))
        try:
            for dp, dn, fn in os.walk(path, topdown=False):
                for f in fn:
                    self._a.yield_point('rmtree-unlink:' + f)
                    try:
                        os.unlink(os.path.join(dp, f))
                        self._w.stamp(dp)
                    except OSError:
                        if not ignore_errors:
                            raise
                try:
                    os.rmdir(dp)
                    self._w.stamp_parent(dp)
                except OSError:
                    if not ignore_errors:
                        raise
        except Killed:
            raise

    def _copy(self, src, dst, follow_symlinks=True):
        # a copy is NOT atomic: the destination grows chunk by chunk
        src, dst = os.fspath(src), os.fspath(dst)
        if os.path.isdir(dst):
            dst = os.path.join(dst, os.path.basename(src))
        with open(src, 'rb') as f:
            data = f.read()
        with FileProxy(self._w, self._a, dst, 'wb') as out:
            out.write(data)
        return dst

    def copyfile(self, src, dst, **kw):
        return self._copy(src, dst)

    def copy(self, src, dst, **kw):
        d = self._copy(src, dst)
        self._a.yield_point('chmod:' + os.path.basename(d))
        _shutil.copymode(src, d)
        return d

    def copy2(self, src, dst, **kw):
        d = self._copy(src, dst)
        self._a.yield_point('copystat:' + os.path.basename(d))
        _shutil.copystat(src, d)
        self._w.stamp(d)
        return d

    def move(self, src, dst, **kw):
        src, dst = os.fspath(src), os.fspath(dst)
        real_dst = os.path.join(dst, os.path.basename(src)) if os.path.isdir(dst) else dst
        self._a.yield_point('rename:' + os.path.basename(real_dst))
        os.rename(src, real_dst)        # same file system: an atomic rename
        return real_dst

    def copytree(self, src, dst, **kw):
        self._a.yield_point('copytree:' + os.path.basename(str(dst)))
        return _shutil.copytree(src, dst, **kw)

    def __getattr__(self, name):
        return getattr(_shutil, name)


class TimeFacade:
    """the simulated clock: the only clock the code under test can read"""

    def __init__(self, world, actor):
        self._w, self._a = world, actor

    def time(self):
        return self._w.now

    monotonic = perf_counter = time

    def time_ns(self):
        return int(self._w.now * 1e9)

    def sleep(self, s):
        self._w.now += max(0.0, float(s))
        self._a.yield_point('sleep')

    def __getattr__(self, name):
        import time as _t
        return getattr(_t, name)


class SysFacade:
    def __init__(self):
        self.path = []
        self.modules = {}

    def __getattr__(self, name):
        return getattr(_sys, name)


# ----------------------------------------------------------------------------
# stub tool-chain: file-level contract of Cython / distutils build_ext / dlopen

def _real_error_bases():
    """The stub tool-chain raises what the real one raises, so that code under test which distinguishes
    exception types (except CompileError: ...) behaves as it would with the real tool-chain."""
    bases = []
    try:
        from distutils.errors import CompileError, LinkError       # setuptools' vendored distutils
        bases += [CompileError, LinkError]
    except Exception:
        pass
    try:
        from Cython.Compiler.Errors import CompileError as CyErr
        bases.append(CyErr)
    except Exception:
        pass
    return tuple(bases) or (Exception,)


class StubCompileError(*_real_error_bases()):
    def __init__(self, msg=''):
        Exception.__init__(self, msg)
        self.args = (msg,)

    def __str__(self):
        return str(self.args[0]) if self.args else ''


def src_text(tag, size=6):
    body = ''.join('x%d = %d\n' % (i, i) for i in range(size))
    return '#SRC %s\n%s#END\n' % (tag, body)


def make_c(pyx_bytes):
    complete = pyx_bytes.endswith(b'#END\n')
    if not complete and not pyx_bytes.endswith(b'\n'):
        raise StubCompileError('Cython: syntax error in truncated source')
    if not pyx_bytes.startswith(b'#SRC'):
        raise StubCompileError('Cython: empty or invalid source')
    return ('/*C digest=%s complete=%d*/\n' % (sha(pyx_bytes), int(complete))).encode() + b'c' * 60 + b'\n/*END*/\n'


def parse_c(c_bytes):
    if not c_bytes.startswith(b'/*C digest=') or not c_bytes.endswith(b'/*END*/\n'):
        raise StubCompileError('gcc: error in truncated or invalid C file')
    head = c_bytes.split(b'\n', 1)[0].decode()
    dig = head.split('digest=')[1].split(' ')[0]
    comp = int(head.split('complete=')[1].split('*')[0])
    return dig, comp


def make_o(c_bytes):
    dig, comp = parse_c(c_bytes)
    return ('OBJ digest=%s complete=%d\n' % (dig, comp)).encode() + b'o' * 50 + b'\nENDOBJ\n'


def make_so(o_bytes, nonce):
    if not o_bytes.startswith(b'OBJ digest=') or not o_bytes.endswith(b'ENDOBJ\n'):
        raise StubCompileError('ld: file truncated or not recognized')
    head = o_bytes.split(b'\n', 1)[0].decode()
    dig = head.split('digest=')[1].split(' ')[0]
    comp = int(head.split('complete=')[1])
    body = ('digest=%s complete=%d nonce=%s\n' % (dig, comp, nonce)).encode()
    body = body + b'.text' * 12 + b'\n' + b'.debug' * 16 + b'\nENDSO\n'
    total = HDR_LEN + len(body)
    hdr = ('\x7fELFSIM len=%06d' % total).encode().ljust(HDR_LEN - 1, b' ') + b'\n'
    return hdr + body


def classify_so(data):
    """-> ('importerror', msg) | ('crash', msg) | ('ok', digest, complete)"""
    if len(data) < HDR_LEN:
        return ('importerror', 'file too short')
    if not data.startswith(b'\x7fELFSIM len='):
        return ('importerror', 'invalid ELF header')
    try:
        total = int(data[12:18])
    except ValueError:
        return ('importerror', 'invalid ELF header')
    if len(data) < HDR_LEN + (total - HDR_LEN) // 2:
        return ('crash', 'SIGBUS: mapped segment beyond end of truncated shared object')
    body = data[HDR_LEN:]
    if not body.startswith(b'digest='):
        return ('crash', 'SIGSEGV: garbage in loaded segment')
    line = body.split(b'\n', 1)[0].decode(errors='replace')
    try:
        dig = line.split('digest=')[1].split(' ')[0]
        comp = int(line.split('complete=')[1].split(' ')[0])
    except Exception:
        return ('crash', 'SIGSEGV: garbage in loaded segment')
    return ('ok', dig, comp)


def resolve_import(paths, name):
    """The stub's model of CPython's path-based finder for a top-level name, as a pure function of the
    directory contents: ('ok', file, digest, complete) | ('importerror', file, msg) | ('crash', file, msg, nbytes)
    | ('namespace', portions) | ('notfound',)."""
    portions = []
    for d in paths:
        f = os.path.join(d, name + EXT)
        dd = os.path.join(d, name)
        # a directory called <name> without __init__.py is a namespace-package portion; a module FILE of that
        # name in the same directory wins; if no path entry has a real module the import SUCCEEDS with an
        # empty namespace package
        if os.path.isdir(dd) and not os.path.exists(os.path.join(dd, '__init__.py')):
            portions.append(dd)
        if not os.path.isfile(f):
            continue
        with open(f, 'rb') as fh:
            data = fh.read()
        r = classify_so(data)
        if r[0] == 'importerror':
            return ('importerror', f, r[1])
        if r[0] == 'crash':
            return ('crash', f, r[1], len(data))
        return ('ok', f, r[1], r[2])
    if portions:
        return ('namespace', portions)
    return ('notfound',)


class StubBuildExt:
    def __init__(self, proc):
        self._p = proc
        self.extensions = []
        self.build_temp = 'build/temp'
        self.build_lib = 'build/lib'
        self.force = None
        self.inplace = False

    def get_ext_filename(self, name):
        return name.replace('.', os.sep) + EXT

    def get_ext_fullpath(self, name):
        return os.path.join(self.build_lib, self.get_ext_filename(name))

    def finalize_options(self):
        pass

    def run(self):
        p = self._p
        a, w = p.actor, p.world
        for ext in self.extensions:
            a.yield_point('build_ext')
            ext_path = self.get_ext_fullpath(ext.name)
            srcs = list(ext.sources)
            # distutils newer_group(depends, ext_path, 'newer')
            if not self.force and os.path.exists(ext_path):
                t = os.path.getmtime(ext_path)
                if all(os.path.exists(s) and os.path.getmtime(s) <= t for s in srcs):
                    w.ctx.count('toolchain.build_ext.up-to-date-skip')
                    continue
            objs = []
            for c in srcs:
                a.yield_point('gcc:' + os.path.basename(c))
                try:
                    with open(c, 'rb') as f:
                        cb = f.read()
                except OSError as e:
                    raise StubCompileError('gcc: %s' % e)
                ob = make_o(cb)
                w.stage(a, 'gcc', 3.0, 40.0)
                obj = os.path.join(self.build_temp, os.path.splitext(c)[0].lstrip('/') + '.o')
                p.os.makedirs(os.path.dirname(obj), exist_ok=True)
                with p.open(obj, 'wb') as f:
                    f.write(ob)
                objs.append(obj)
            a.yield_point('ld:' + os.path.basename(ext_path))
            with open(objs[0], 'rb') as f:
                ob = f.read()
            w.nonce += 1
            so = make_so(ob, '%s.%d' % (a.name, w.nonce))
            p.os.makedirs(os.path.dirname(ext_path) or '.', exist_ok=True)
            if os.path.exists(ext_path):
                p.os.unlink(ext_path)
            with p.open(ext_path, 'wb') as f:
                f.write(so)
            p.os.chmod(ext_path, 0o755)
            w.ctx.count('toolchain.linked')


class Proc:
    """One simulated process: a private instance of pyiga/compile.py."""
    _count = 0

    def __init__(self, world, actor):
        self.world, self.actor = world, actor
        Proc._count += 1
        path = os.path.join(env.REPO, 'pyiga', 'compile.py')
        spec = importlib.util.spec_from_file_location('pyiga._vsim_compile_%d' % Proc._count, path)
        mod = importlib.util.module_from_spec(spec)
        mod.__package__ = 'pyiga'
        spec.loader.exec_module(mod)
        self.mod = mod
        self.open = make_open(world, actor)
        self.os = OsFacade(world, actor)
        self.sys = SysFacade()
        self.ncythonize = 0
        self.import_names = []
        mod.MODDIR = world.moddir
        g = mod.__dict__
        g['open'] = self.open
        for name, val in list(g.items()):
            if isinstance(val, types.ModuleType):
                if val is os:
                    g[name] = self.os
                elif val is _sys:
                    g[name] = self.sys
                elif val is _tempfile:
                    g[name] = TempfileFacade(world, actor)
                elif val is _shutil:
                    g[name] = ShutilFacade(world, actor)
                elif val.__name__ == 'importlib':
                    g[name] = ImportlibFacade(self)
                elif val.__name__ == 'time':
                    g[name] = TimeFacade(world, actor)
                elif val.__name__ == 'os.path' or val is os.path:
                    g[name] = os.path
        g['cythonize'] = self.cythonize
        g['_get_build_extension'] = lambda: StubBuildExt(self)

    # stub of Cython.Build.Dependencies.cythonize
    def cythonize(self, module_list, **kw):
        a, w = self.actor, self.world
        self.ncythonize += 1
        for ext in module_list:
            pyx = ext.sources[0]
            c_file = os.path.splitext(pyx)[0] + '.c'
            a.yield_point('cythonize:' + os.path.basename(pyx))
            c_ts = os.path.getmtime(c_file) if os.path.exists(c_file) else -1
            try:
                dep_ts = os.path.getmtime(pyx)
            except OSError as e:
                raise StubCompileError('Cython: %s' % e)
            if kw.get('force') or c_ts < dep_ts:
                with open(pyx, 'rb') as f:
                    pb = f.read()
                cb = make_c(pb)
                w.stage(a, 'cython', 1.0, 3.0)
                a.yield_point('cython-write:' + os.path.basename(c_file))
                if os.path.exists(c_file):
                    self.os.unlink(c_file)
                with self.open(c_file, 'wb') as f:
                    f.write(cb)
                w.ctx.count('toolchain.cythonized')
            else:
                w.ctx.count('toolchain.cython.up-to-date-skip')
            ext.sources = [c_file]
        return module_list


class ImportlibFacade:
    def __init__(self, proc):
        self._p = proc
        self.util = importlib.util
        self.machinery = importlib.machinery
        self._dircache = {}

    def invalidate_caches(self):
        self._p.actor.check_alive()
        self._dircache.clear()

    def import_module(self, name, package=None):
        p = self._p
        p.actor.check_alive()
        p.import_names.append(name)
        if name in p.sys.modules:
            return p.sys.modules[name]
        p.actor.yield_point('import:' + name)
        r = resolve_import(p.sys.path, name)
        if r[0] == 'importerror':
            p.world.ctx.count('probe.import.importerror-on-partial-so')
            raise ImportError('%s: %s' % (r[1], r[2]))
        if r[0] == 'crash':
            p.world.ctx.count('probe.import.hit-half-written-so')
            raise InterpreterCrash('import %s: %s (file has %d bytes)' % (name, r[2], r[3]))
        if r[0] == 'ok':
            m = types.SimpleNamespace(__name__=name, __file__=r[1], __digest__=r[2])
            if r[3]:
                m.CustomAssembler = type('CustomAssembler', (), {'__digest__': r[2]})
            p.sys.modules[name] = m
            return m
        if r[0] == 'namespace':
            p.world.ctx.count('probe.import.namespace-package')
            m = types.SimpleNamespace(__name__=name, __path__=list(r[1]), __file__=None, __digest__=None)
            p.sys.modules[name] = m
            return m
        raise ModuleNotFoundError("No module named '%s'" % name)

    def __getattr__(self, name):
        return getattr(importlib, name)


# ----------------------------------------------------------------------------

FAMILIES = [('concurrent', 4), ('crash', 3), ('mixed', 3), ('enospc', 1), ('clock', 1)]


def monitor(world):
    """write-once: a final-name shared object, once complete, never changes."""
    try:
        names = os.listdir(world.moddir)
    except OSError:
        return None
    for n in names:
        if not (n.startswith('mod') and n.endswith(EXT)):
            continue
        pth = os.path.join(world.moddir, n)
        try:
            with open(pth, 'rb') as f:
                data = f.read()
        except OSError:
            continue
        old = world.completed.get(pth)
        if old is not None:
            if data != old:
                return (n, len(old), len(data))
        else:
            r = classify_so(data)
            if r[0] == 'ok' and data.endswith(b'ENDSO\n'):
                world.completed[pth] = data
    for pth, old in world.completed.items():
        if not os.path.exists(pth):
            return (os.path.basename(pth), len(old), -1)
    return None


def run_case(ctx):
    root = _tempfile.mkdtemp(prefix='cs-', dir=env.scratch_root())
    try:
        _run(ctx, root)
    finally:
        _shutil.rmtree(root, ignore_errors=True)


def _run(ctx, root):
    cfg = ctx.ch.stream('cfg')
    fam = cfg.weighted(FAMILIES)
    if ctx.params.get('family'):
        fam = ctx.params['family']
    thorough = ctx.tier == 'thorough'
    w = World(ctx, root)
    os.makedirs(w.root, exist_ok=True)
    nsrc = 1 + cfg.choice(3)
    srcs = [src_text('form%d' % i, 4 + i) for i in range(nsrc)]
    if fam == 'concurrent':
        nproc = 2 + cfg.choice(15 if thorough else 5)
    elif fam == 'crash':
        nproc = 1 + cfg.choice(2)
    elif fam == 'mixed':
        nproc = 2 + cfg.choice(4)
    else:
        nproc = 1 + cfg.choice(3)
    if fam == 'clock':
        w.gran = cfg.pick([1, 2, 0])
    w.durations = bool(cfg.chance(35))
    if w.durations:
        ctx.count('knob.realistic-toolchain-durations')
    kills_left = {'concurrent': 0, 'crash': 1 + cfg.choice(3), 'mixed': 1 + cfg.choice(2), 'enospc': 0,
                  'clock': cfg.choice(2)}[fam]
    enospc_left = 1 + cfg.choice(2) if fam == 'enospc' else 0
    ctx.count('family.' + fam)
    ctx.log({'family': fam, 'nproc': nproc, 'nsrc': nsrc, 'mtime_granularity': w.gran})
    fault = ctx.ch.stream('fault')
    clock = ctx.ch.stream('clock')
    state = {'kills': kills_left, 'enospc': enospc_left, 'faults_in_build': 0, 'switch_in_build': 0,
             'last': None, 'overwritten': None}
    faulted = set()     # actors whose own request overlapped an injected fault

    def fault_hook(s, a):
        # advance the virtual clock
        if fam == 'clock':
            d = clock.weighted([(0.0, 4), (0.4, 3), (1.0, 2), (-2.5, 1), (5.0, 1)])
        else:
            d = clock.weighted([(0.01, 6), (0.0, 2), (1.5, 1)])
        w.now = max(1.0, w.now + d)
        if d < 0:
            ctx.count('fault.clock.backward.fired')
        in_build = a.started and not a.label.startswith(('start', 'import', 'makedirs:modules', 'sleep'))
        if state['last'] is not None and state['last'] is not a and in_build and not state['last'].done:
            state['switch_in_build'] += 1
        state['last'] = a
        if not in_build:
            return None
        if state['kills'] > 0:
            boost = a.label.startswith(('link', 'rename', 'replace', 'write', 'chmod', 'rmtree'))
            if fault.chance(12 if boost else 5):
                state['kills'] -= 1
                state['faults_in_build'] += 1
                ctx.count('fault.kill.fired')
                ctx.count('fault.kill.at.' + a.label.split(':')[0])
                ctx.log(['kill', a.name, a.label, s.step])
                faulted.add(a.name)
                return 'kill'
        if state['enospc'] > 0 and a.label.startswith(('write', 'open', 'link', 'mkdtemp', 'makedirs', 'mkdir', 'cython', 'gcc', 'ld')):
            if fault.chance(15):
                state['enospc'] -= 1
                w.enospc[a.name] = 1 + fault.choice(2)
                state['faults_in_build'] += 1
                ctx.log(['enospc', a.name, a.label, s.step])
                faulted.add(a.name)
        return None

    def after_step(s, a):
        if a.done:
            reap_fds(a)         # process death or exit: the kernel closes its descriptors (and drops its file locks)
        if state['overwritten'] is None:
            state['overwritten'] = monitor(w)

    def make_actor_fn(reqs, results, fresh_label):
        def fn(actor):
            proc = Proc(w, actor)
            actor.proc = proc
            for i in reqs:
                try:
                    mod = proc.mod.compile_cython_module(srcs[i])
                    results.append((i, 'ok', getattr(mod, '__digest__', None), hasattr(mod, 'CustomAssembler')))
                except (Killed, InterpreterCrash):
                    raise
                except Exception as e:     # noqa: the request failed in this process
                    results.append((i, 'exc', '%s: %s' % (type(e).__name__, str(e)[:160]), None))
            return results
        return fn

    # ---------------- phase 1: chaos
    sched = Sched(ctx.ch.stream('sched'), fault_hook=fault_hook, step_cap=4000)
    sched.after_step = after_step
    actors = []
    requested = set()
    for k in range(nproc):
        nreq = 1 + cfg.choice(2)
        reqs = [cfg.choice(nsrc) for _ in range(nreq)]
        requested.update(reqs)
        res = []
        a = sched.spawn('p%d' % k, make_actor_fn(reqs, res, False))
        a.reqs, a.res = reqs, res
        actors.append(a)
    ctx.log(['requests', [[a.name, a.reqs] for a in actors]])
    finished = sched.run()
    ctx.sim_time = w.now - 1000.0
    sig = lambda what, **kw: dict(what=what, family=fam, **kw)     # noqa
    if not finished:
        ctx.violation('no-progress', 'phase 1 did not finish within %d scheduler steps' % sched.step_cap, sig('liveness'))
        return
    names = {}
    for a in actors:
        if a.error is not None:
            raise a.error      # harness problem
        if a.crashed:
            ctx.violation('interpreter-crash', 'process %s died: %s (schedule tail %s)'
                          % (a.name, a.crashed, sched.order[-12:]), sig('crash', phase=1))
            return
        for (i, st, info, has_asm) in a.res:
            if st == 'ok':
                if info != sha(srcs[i]) or not has_asm:
                    ctx.violation('wrong-module', 'process %s requested source %d (digest %s) and got a module built from %s '
                                  '(CustomAssembler present: %s)' % (a.name, i, sha(srcs[i]), info, has_asm),
                                  sig('wrong-module', phase=1))
                    return
            else:
                if a.name not in faulted and fam in ('concurrent', 'clock'):
                    ctx.violation('request-failed', 'fault-free process %s: request for source %d raised %s'
                                  % (a.name, i, info), sig('request-failed', phase=1))
                    return
                elif a.name not in faulted:
                    ctx.violation('request-failed-survivor', 'process %s (no fault injected into it) failed on source %d: %s'
                                  % (a.name, i, info), sig('request-failed', phase=1))
                    return
                ctx.count('requests.failed.under.own.fault')
        if hasattr(a, 'proc'):
            for nm in a.proc.import_names:
                names.setdefault(nm, set())
    if state['overwritten']:
        n, l0, l1 = state['overwritten']
        ctx.violation('entry-overwritten', 'completed cache entry %s (%d bytes) later seen with different content (%s bytes)'
                      % (n, l0, l1), sig('write-once'))
        return
    # ---------------- phase 2: fault-free recovery in fresh processes
    state['kills'] = 0
    state['enospc'] = 0
    w.enospc.clear()
    if fam == 'clock' and cfg.chance(50):
        w.now += 10.0
    for i in sorted(requested):
        for attempt in range(2):
            s2 = Sched(ctx.ch.stream('sched2'), fault_hook=None, step_cap=1000)
            s2.after_step = after_step
            res = []
            a = s2.spawn('r%d_%d' % (i, attempt), make_actor_fn([i], res, True))
            ok = s2.run()
            if a.error is not None:
                raise a.error
            if a.crashed:
                ctx.violation('interpreter-crash', 'recovery process for source %d died: %s' % (i, a.crashed),
                              sig('crash', phase=2))
                return
            if not ok or not res:
                ctx.violation('no-progress', 'recovery request for source %d did not finish' % i, sig('liveness'))
                return
            (_, st, info, has_asm) = res[0]
            if st != 'ok':
                ctx.violation('recovery-failed', 'fresh process, no faults: request for source %d raised %s '
                              '(cache directory: %s)' % (i, info, sorted(os.listdir(w.moddir))[:12]),
                              sig('recovery', phase=2))
                return
            if info != sha(srcs[i]) or not has_asm:
                ctx.violation('wrong-module', 'recovery request for source %d (digest %s) returned a module built from %s'
                              % (i, sha(srcs[i]), info), sig('wrong-module', phase=2))
                return
            # bounded liveness: a fault-free request terminates after a bounded number of builds.  The property
            # does not say "one" (an implementation may try to re-use a leftover, fail, clean up and build again),
            # so the bound is generous; more than one build is only counted.
            ctx.check(a.proc.ncythonize <= 3, 'recovery-needs-many-builds',
                      '%d builds for one fault-free request' % a.proc.ncythonize, sig('liveness'))
            if a.proc.ncythonize > 1:
                ctx.count('probe.recovery.more-than-one-build')
            if attempt == 1 and a.proc.ncythonize:
                # not demanded by the property (it forbids overwriting a completed entry, it does not demand that
                # the entry is re-used): counted only
                ctx.count('probe.completed-entry-not-reused')
            ctx.count('recovery.requests.ok')
    if state['overwritten'] is None:
        state['overwritten'] = monitor(w)
    if state['overwritten']:
        n, l0, l1 = state['overwritten']
        ctx.violation('entry-overwritten', 'completed cache entry %s (%d bytes) later seen with different content (%s bytes)'
                      % (n, l0, l1), sig('write-once'))
        return
    # naming: one module name per source, same in every process
    name_of = {}
    for i in sorted(requested):
        nm = 'mod' + hashlib.shake_128(srcs[i].encode()).hexdigest(8)
        name_of[i] = nm
    ctx.check(len(set(name_of.values())) == len(name_of), 'naming-collision', str(name_of), sig('naming'))
    ctx.nontrivial = bool(state['switch_in_build'] > 0 or state['faults_in_build'] > 0)
    if state['switch_in_build']:
        ctx.count('runs.with.interleaved.builds')
    ctx.count('context.switches.inside.builds', state['switch_in_build'])
    ctx.count('scheduler.steps', sched.step)
    ctx.interleaving = [fam, sched.order]
    ctx.state = (fam, nproc, tuple(sorted(os.listdir(w.moddir))) if os.path.isdir(w.moddir) else ())
    ctx.trace.append(['schedule', ''.join(n[1:] if len(n) == 2 else '(' + n + ')' for n in sched.order[:300])])


# ----------------------------------------------------------------------------
# check driver: Layer B (real tool-chain) + conformance + Layer A

_run_case_layer_a = run_case


def run_case(ctx):      # noqa: F811 -- dispatch on the layer
    if ctx.params.get('layer') == 'B':
        from . import cachesim_real
        return cachesim_real.run_case(ctx)
    return _run_case_layer_a(ctx)


def static_checks(seed):
    """replay of a clean-build-failed report"""
    from . import cachesim_real
    try:
        cachesim_real.prepare(os.path.join(env.scratch_root(), 'ref-replay'))
    except cachesim_real.CleanBuildFailed as e:
        return [('clean-build-failed', str(e)[:1500], {})], {}
    return [], {}


def prepare_replay(params):
    if params and params.get('layer') == 'B':
        from . import cachesim_real
        ref = os.path.join(env.scratch_root(), 'ref')
        cachesim_real.prepare(ref)
        params = dict(params, ref_dir=ref, strace=cachesim_real.have_strace())
    return params


def main_check(prop, tier, seed, cfg, args):
    import json
    import time
    from . import runner, cachesim_real
    only = getattr(args, 'only', None)
    rc_b, cov_b, conf = 0, None, None
    t0 = time.time()
    if only in (None, 'B'):
        strace = cachesim_real.have_strace()
        ref = os.path.join(env.scratch_root(), 'ref')
        try:
            cachesim_real.prepare(ref)
            conf = cachesim_real.conformance(ref)
        except cachesim_real.CleanBuildFailed as e:
            # a plain request into an empty cache, no fault, no concurrency, fails: that is a verdict on pyiga
            os.makedirs(runner.REPLAY_DIR, exist_ok=True)
            path = os.path.join(runner.REPLAY_DIR, '%s-clean-build-failed.json' % prop)
            with open(path, 'w') as f:
                json.dump({'property': prop, 'engine': 'vsim.cachesim', 'static': True, 'invariant': 'clean-build-failed',
                           'signature': {'invariant': 'clean-build-failed', 'what': 'clean-build'}, 'detail': str(e)[:1500],
                           'seed': seed, 'tier': tier, 'choices': {}}, f, indent=1)
            print('VIOLATION property=%s replay=%s' % (prop, path))
            print('  invariant=clean-build-failed\n  detail: %s' % str(e)[:600])
            return 1
        except Exception as e:
            print('HARNESS-ERROR property=%s layer B preparation failed: %r' % (prop, e))
            return 2
        nb = args.runs if (only == 'B' and args.runs) else (14 if tier == 'quick' else 160)
        evp = os.path.join(env.scratch_root(), 'layerB-evidence.json')
        rc_b = runner.run_check(prop, tier, seed, nb, batch=1, workers=min(14, os.cpu_count() or 1),
                                wall_cap=(500 if tier == 'quick' else 1300), min_budget=6, min_wall=400,
                                params={'layer': 'B', 'ref_dir': ref, 'strace': strace},
                                evidence_path=evp, label='layer B: real tool-chain')
        with open(evp) as f:
            eb = json.load(f)
        cov_b = {k: eb['coverage'][k] for k in ('evaluations', 'distinct_nontrivial', 'distinct_trace_digests',
                                                'fault_and_probe_counters', 'samples', 'runs_per_hour', 'harness_errors')}
        cov_b['wall_s'] = round(time.time() - t0, 1)
        cov_b['violations'] = eb.get('violations', 0)
        cov_b['strace_injection_available'] = strace
        if only == 'B':
            return rc_b
    extra = {'layer_b': cov_b, 'stub_conformance': conf}
    na = cfg['nruns'] if not (only == 'A' and args.runs) else args.runs
    rc_a = runner.run_check(prop, tier, seed, na, wall_cap=cfg.get('wall_cap', 3000), extra_evidence=extra,
                            label='layer A: protocol simulation')
    return max(rc_a, rc_b) if 1 not in (rc_a, rc_b) else 1
