"""A small fork-based worker pool that survives worker death.

ProcessPoolExecutor hangs in shutdown when workers die from a fatal signal; a
crash inside the code under test (a segfault in a generated assembler, say) is
a *result* for us, not an infrastructure failure.  Jobs are handed out one at a
time over pipes; a worker that dies is replaced and the job it was running is
reported as crashed with the signal number.
"""
import multiprocessing as mp
import multiprocessing.connection as mpc
import os
import signal
import time
import traceback


def _worker_main(conn, fn):
    signal.signal(signal.SIGTERM, signal.SIG_DFL)
    while True:
        try:
            job = conn.recv()
        except (EOFError, OSError):
            break
        if job is None:
            break
        jid, arg = job
        try:
            res = ('ok', fn(arg))
        except BaseException:       # noqa
            res = ('error', traceback.format_exc())
        try:
            conn.send((jid, res))
        except (BrokenPipeError, OSError):
            break
    os._exit(0)


class Worker:
    def __init__(self, ctx, fn):
        self.parent_conn, child_conn = ctx.Pipe()
        self.proc = ctx.Process(target=_worker_main, args=(child_conn, fn), daemon=True)
        self.proc.start()
        child_conn.close()
        self.job = None
        self.t0 = None


def run_jobs(fn, args, nworkers, deadline=None, job_timeout=None, grace=300):
    """Run fn(arg) for every arg in forked workers.

    Yields (index, status, payload): status 'ok' -> payload is the result;
    'error' -> traceback text (exception inside fn); 'crashed' -> signal number
    or exit code description; 'timeout' -> the job exceeded job_timeout (worker
    killed); 'deadline' -> not run because the overall deadline passed."""
    ctx = mp.get_context('fork')
    pending = list(range(len(args)))
    pending.reverse()
    workers = [Worker(ctx, fn) for _ in range(max(1, min(nworkers, len(args))))]
    running = 0
    handed_out = False      # every worker gets its first job even if the deadline has already passed
    try:
        while pending or running:
            now = time.time()
            if deadline is not None and now > deadline and pending and handed_out:
                # the time budget is used up: hand out no new jobs, but let the running ones finish (each is
                # still bounded by job_timeout) -- on an overloaded machine dropping them could leave no result at all
                for j in pending:
                    yield j, 'deadline', None
                pending = []
                if not running:
                    return
            for w in workers:
                if w.job is None and pending and w.proc.is_alive():
                    j = pending.pop()
                    try:
                        w.parent_conn.send((j, args[j]))
                        w.job, w.t0 = j, time.time()
                        running += 1
                        handed_out = True
                    except (BrokenPipeError, OSError):
                        pending.append(j)
            waitables = []
            for w in workers:
                if w.job is not None:
                    waitables.append(w.parent_conn)
                    waitables.append(w.proc.sentinel)
            if not waitables:
                # all workers idle or dead but jobs pending: replace dead workers
                workers = [w if w.proc.is_alive() else Worker(ctx, fn) for w in workers]
                continue
            mpc.wait(waitables, timeout=1.0)
            for i, w in enumerate(workers):
                if w.job is None:
                    continue
                got = False
                try:
                    if w.parent_conn.poll():
                        jid, res = w.parent_conn.recv()
                        got = True
                except (EOFError, OSError):
                    got = False
                if got:
                    yield jid, res[0], res[1]
                    w.job = None
                    running -= 1
                    continue
                if not w.proc.is_alive():
                    code = w.proc.exitcode
                    yield w.job, 'crashed', (-code if code is not None and code < 0 else 'exit %r' % code)
                    running -= 1
                    workers[i] = Worker(ctx, fn)
                    continue
                if deadline is not None and time.time() > deadline + grace:
                    # grace period after the time budget is over as well: give the job up (not an error)
                    try:
                        os.kill(w.proc.pid, signal.SIGKILL)
                    except OSError:
                        pass
                    w.proc.join(5)
                    yield w.job, 'deadline', None
                    running -= 1
                    workers[i] = Worker(ctx, fn)
                    continue
                if job_timeout is not None and time.time() - w.t0 > job_timeout:
                    try:
                        os.kill(w.proc.pid, signal.SIGKILL)
                    except OSError:
                        pass
                    w.proc.join(5)
                    yield w.job, 'timeout', None
                    running -= 1
                    workers[i] = Worker(ctx, fn)
    finally:
        for w in workers:
            try:
                if w.proc.is_alive():
                    try:
                        w.parent_conn.send(None)
                    except (BrokenPipeError, OSError):
                        pass
            except Exception:
                pass
        t_end = time.time() + 3
        for w in workers:
            w.proc.join(max(0.0, t_end - time.time()))
            if w.proc.is_alive():
                try:
                    os.kill(w.proc.pid, signal.SIGKILL)
                except OSError:
                    pass
                w.proc.join(2)


def run_isolated(fn, arg, timeout=600):
    """fn(arg) in a forked child -> ('ok', result) | ('error', tb) | ('crashed', sig) | ('timeout', None)"""
    for (_, st, payload) in run_jobs(fn, [arg], 1, job_timeout=timeout):
        return st, payload
    return 'error', 'no result'
