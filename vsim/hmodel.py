"""Independent set-algebra reference model of a hierarchical spline space.

State = per level the set of refined (deactivated) cells.  Everything else is
recomputed from the definitions:
  Omega_0 = all cells of level 0, Omega_{l+1} = children of refined[l]
  active cells of level l = Omega_l - refined[l]
  a level-l function is active  iff supp <= Omega_l and not supp <= refined[l]
                       deactivated iff supp <= refined[l]
Uses only numpy/scipy (scipy.interpolate.BSpline for the independent
prolongation), nothing from pyiga.
"""
import itertools

import numpy as np
import scipy.sparse as sp
from scipy.interpolate import BSpline


def refine_knots(t):
    mesh = np.unique(t)
    mid = (mesh[1:] + mesh[:-1]) / 2
    return np.sort(np.concatenate((t, mid)))


class Model:
    def __init__(self, degs, knots0):
        self.dim = len(degs)
        self.degs = tuple(degs)
        self.knots = [[np.asarray(t, float) for t in knots0]]
        self.refined = [set()]
        self._cache = {}

    # ---- static geometry per level
    def ensure_level(self, l):
        while len(self.knots) <= l:
            self.knots.append([refine_knots(t) for t in self.knots[-1]])

    def mesh(self, l, d):
        self.ensure_level(l)
        return np.unique(self.knots[l][d])

    def ncells(self, l):
        return tuple(len(self.mesh(l, d)) - 1 for d in range(self.dim))

    def nfuncs(self, l):
        self.ensure_level(l)
        return tuple(len(self.knots[l][d]) - self.degs[d] - 1 for d in range(self.dim))

    def supp1d(self, l, d):
        """(lo, hi) arrays: cell index range [lo,hi) of every 1D function."""
        key = ('supp1d', l, d)
        if key not in self._cache:
            p = self.degs[d]
            self.ensure_level(l)
            t = self.knots[l][d]
            m = self.mesh(l, d)
            n = len(t) - p - 1
            lo = np.searchsorted(m, t[:n], side='left')
            hi = np.searchsorted(m, t[p + 1:p + 1 + n], side='left')
            self._cache[key] = (lo, hi)
        return self._cache[key]

    # ---- state
    @property
    def L(self):
        """number of levels: deepest level holding cells + 1"""
        top = max([l for l, r in enumerate(self.refined) if r], default=-1)
        return top + 2

    def copy(self):
        m = Model(self.degs, self.knots[0])
        m.knots = self.knots
        m._cache = self._cache
        m.refined = [set(r) for r in self.refined]
        return m

    def omega(self, l):
        if l == 0:
            return set(itertools.product(*[range(n) for n in self.ncells(0)]))
        if l - 1 >= len(self.refined):
            return set()
        out = set()
        for c in self.refined[l - 1]:
            out.update(itertools.product(*[(2 * ci, 2 * ci + 1) for ci in c]))
        return out

    def refined_at(self, l):
        return self.refined[l] if l < len(self.refined) else set()

    def active_cells(self, l):
        return self.omega(l) - self.refined_at(l)

    def apply_refine(self, marks):
        """marks: dict level -> iterable of cells (must be active)."""
        for l, cells in marks.items():
            while len(self.refined) <= l:
                self.refined.append(set())
        for l, cells in sorted(marks.items()):
            self.refined[l] |= set(tuple(int(x) for x in c) for c in cells)

    def _grid(self, l, cells):
        g = np.zeros(self.ncells(l), dtype=np.int64)
        if cells:
            idx = np.array(sorted(cells))
            g[tuple(idx.T)] = 1
        return g

    def _boxcount(self, l, grid):
        """for every function of level l: number of cells of `grid` in its support box"""
        S = grid
        for ax in range(self.dim):
            S = np.cumsum(S, axis=ax)
            pad = [(0, 0)] * self.dim
            pad[ax] = (1, 0)
            S = np.pad(S, pad)
        los, his = zip(*[self.supp1d(l, d) for d in range(self.dim)])
        tot = 0
        for corner in itertools.product((0, 1), repeat=self.dim):
            ix = np.ix_(*[(his[d] if corner[d] else los[d]) for d in range(self.dim)])
            sign = (-1) ** (self.dim - sum(corner))
            tot = tot + sign * S[ix]
        return tot

    def functions(self, l):
        """(active, deactivated) sets of function multi-indices of level l."""
        om = self.omega(l)
        if not om:
            return set(), set()
        ref = self.refined_at(l)
        los, his = zip(*[self.supp1d(l, d) for d in range(self.dim)])
        vol = 1
        for d in range(self.dim):
            shape = [1] * self.dim
            shape[d] = -1
            vol = vol * (his[d] - los[d]).reshape(shape)
        c_om = self._boxcount(l, self._grid(l, om))
        c_ref = self._boxcount(l, self._grid(l, ref))
        deact = (c_ref == vol)
        act = (c_om == vol) & ~deact
        return (set(map(tuple, np.argwhere(act).tolist())),
                set(map(tuple, np.argwhere(deact).tolist())))

    def fun_cells(self, l, f):
        los, his = zip(*[self.supp1d(l, d) for d in range(self.dim)])
        return set(itertools.product(*[range(los[d][f[d]], his[d][f[d]]) for d in range(self.dim)]))

    def state_key(self):
        return tuple(tuple(sorted(r)) for r in self.refined[:self.L])

    # ---- independent prolongation (least squares on design matrices)
    def prolong1d(self, l, d):
        key = ('P1', l, d)
        if key not in self._cache:
            self.ensure_level(l + 1)
            p = self.degs[d]
            tc, tf = self.knots[l][d], self.knots[l + 1][d]
            m = self.mesh(l + 1, d)
            # p+2 points strictly inside every fine cell
            s = (np.arange(p + 2) + 0.5) / (p + 2)
            x = (m[:-1, None] + (m[1:] - m[:-1])[:, None] * s[None, :]).ravel()
            Bc = BSpline.design_matrix(x, tc, p).toarray()
            Bf = BSpline.design_matrix(x, tf, p).toarray()
            P, res, rk, sv = np.linalg.lstsq(Bf, Bc, rcond=None)
            P[np.abs(P) < 1e-14] = 0.0
            self._cache[key] = sp.csr_matrix(P)
        return self._cache[key]

    def prolong(self, l):
        """TP prolongation level l -> l+1 (C order of multi-indices)."""
        key = ('P', l)
        if key not in self._cache:
            P = self.prolong1d(l, 0)
            for d in range(1, self.dim):
                P = sp.kron(P, self.prolong1d(l, d), format='csr')
            self._cache[key] = P.tocsr()
        return self._cache[key]

    def prolong_between(self, l0, l1):
        P = sp.identity(int(np.prod(self.nfuncs(l0))), format='csr')
        for l in range(l0, l1):
            P = self.prolong(l) @ P
        return P

    def ravel(self, l, funcs):
        n = self.nfuncs(l)
        out = []
        for f in funcs:
            i = 0
            for d in range(self.dim):
                i = i * n[d] + f[d]
            out.append(i)
        return np.array(out, dtype=int)

    def represent_fine_hb(self, lv=None):
        """Model version of the HB representation matrix on level lv
        (columns: active functions of levels <= lv in canonical order, level lv
        includes deactivated ones after the active ones when lv < L-1)."""
        L = self.L
        if lv is None:
            lv = L - 1
        blocks = []
        for k in range(lv + 1):
            act, deact = self.functions(k)
            cols = sorted(act)
            if k == lv and lv < L - 1:
                cols = cols + sorted(deact)
            P = self.prolong_between(k, lv)
            blocks.append(P[:, self.ravel(k, cols)] if cols else sp.csr_matrix((P.shape[0], 0)))
        return sp.hstack(blocks, format='csr')

    def represent_fine_thb(self):
        """Independent THB representation matrix on the finest level, from the DEFINITION of truncation:
        a level-k function is prolonged level by level; on every finer level j the coefficients of the
        level-j functions whose support lies in Omega_j (active or deactivated there) are dropped.
        Columns: active functions in canonical order."""
        L = self.L
        blocks = []
        for k in range(L):
            act, _ = self.functions(k)
            cols = sorted(act)
            n_k = int(np.prod(self.nfuncs(k)))
            if not cols:
                blocks.append(sp.csr_matrix((int(np.prod(self.nfuncs(L - 1))), 0)))
                continue
            C = sp.csr_matrix((np.ones(len(cols)), (self.ravel(k, cols), np.arange(len(cols)))), shape=(n_k, len(cols)))
            for j in range(k + 1, L):
                C = (self.prolong(j - 1) @ C).tolil()
                a_j, d_j = self.functions(j)
                drop = self.ravel(j, sorted(a_j | d_j))
                if len(drop):
                    C[drop, :] = 0
                C = C.tocsr()
            blocks.append(C)
        return sp.hstack(blocks, format='csr')

    def thb_to_hb(self):
        """T with  I_hb @ T = I_thb  (unique: I_hb has full column rank)."""
        IH = self.represent_fine_hb().toarray()
        IT = self.represent_fine_thb().toarray()
        T, res, rk, sv = np.linalg.lstsq(IH, IT, rcond=None)
        T[np.abs(T) < 1e-13] = 0.0
        return T

