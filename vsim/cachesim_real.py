"""cachesim Layer B -- the real tool-chain (Cython, gcc, ld, dlopen) in real
processes, made deterministic by serialising every step under the simulator:

 crash scenarios   a real build is killed with SIGKILL at an exact syscall
                   (strace injection): the N-th write to a chosen artefact
                   (source, C file, object, shared object -- whatever paths the
                   code under test uses, learnt from a calibration trace) or
                   the k-th mkdir/link/rename/unlink/chmod of the builder;
                   1-3 crashes in a row across restarts.
 gated scenarios   2-4 real processes park before every seam of pyiga.compile
                   (source write, cythonize, build_ext.run, link/rename/unlink,
                   rmtree, import); the parent's seeded schedule releases one
                   at a time and may SIGKILL a parked process.
 then              fresh processes request every form again (no faults): must
                   exit 0 without a fatal signal and assemble exactly the
                   matrix of a clean-cache build; a second fresh request must
                   find the entry unchanged (write-once).
 conformance       the stub contract of Layer A (truncated shared object =>
                   ImportError / fatal signal / loads; stale partial C file =>
                   persistent compile error) is compared with the real tool-chain.
"""
import glob
import hashlib
import json
import os
import re
import select
import shutil
import signal
import subprocess
import sys
import tempfile
import time

from . import env

DRIVER = os.path.join(os.path.dirname(os.path.abspath(__file__)), 'real_driver.py')
FORMS = ('F0', 'F1', 'F2')
TRACE_CALLS = ('write,pwrite64,openat,link,linkat,rename,renameat,renameat2,unlink,unlinkat,'
               'mkdir,mkdirat,chmod,fchmod,fchmodat,rmdir,symlink,symlinkat')
META_CALLS = ('mkdir', 'link', 'linkat', 'rename', 'renameat', 'renameat2', 'unlink', 'unlinkat', 'chmod', 'rmdir')
NAMES0 = 'vsA'


def _env(cache):
    e = dict(os.environ)
    e['XDG_CACHE_HOME'] = cache
    e['VSIM_XDG'] = cache
    e['PYTHONDONTWRITEBYTECODE'] = '1'
    e['OMP_NUM_THREADS'] = '1'
    return e


def have_strace():
    try:
        p = subprocess.run(['strace', '-qq', '-o', '/dev/null', '-e', 'trace=write', '/bin/true'],
                           stdout=subprocess.DEVNULL, stderr=subprocess.DEVNULL, timeout=30)
        return p.returncode == 0
    except Exception:
        return False


def failing_cc(root, mode):
    """A C compiler wrapper that FAILS (the build is not killed, the tool-chain reports an error): 'enospc' = the
    compile step fails like a full disk, 'ldfail' = compiling works but linking fails."""
    path = os.path.join(root, 'cc-%s.sh' % mode)
    if not os.path.exists(path):
        with open(path, 'w') as f:
            if mode == 'enospc':
                f.write('#!/bin/sh\necho "cc1: fatal error: error writing to /tmp/ccXXXX.s: No space left on device" >&2\nexit 1\n')
            else:
                f.write('#!/bin/sh\nfor a in "$@"; do if [ "$a" = "-shared" ]; then echo "collect2: fatal error: ld terminated '
                        'with signal 9 [Killed]" >&2; exit 1; fi; done\nexec gcc "$@"\n')
        os.chmod(path, 0o755)
    return path


def run_driver(form, cache, out, names=None, strace=None, timeout=600, extra_env=None):
    """-> (returncode, tail of output).  returncode < 0 or 128+n: killed by signal n."""
    cmd = [sys.executable, DRIVER, 'request', form, out]
    if names:
        cmd += ['--names', names]
    if strace:
        cmd = ['strace', '-f', '-qq'] + strace + cmd
    e = _env(cache)
    if extra_env:
        e.update(extra_env)
    p = subprocess.run(cmd, env=e, stdout=subprocess.PIPE, stderr=subprocess.STDOUT, timeout=timeout,
                       start_new_session=True)
    return p.returncode, p.stdout.decode(errors='replace')[-1200:]


def _stopped_in_group(pgid):
    """pids of processes of process group `pgid` that are in a (tracing) stop"""
    out = []
    for d in os.listdir('/proc'):
        if not d.isdigit():
            continue
        try:
            with open('/proc/%s/stat' % d) as f:
                st = f.read()
        except OSError:
            continue
        rest = st[st.rfind(')') + 2:].split()
        if len(rest) > 2 and int(rest[2]) == pgid and rest[0] in ('t', 'T'):
            out.append(int(d))
    return out


def run_driver_groupkill(form, cache, out, names, strace, timeout=600):
    """Run the driver under `strace ... inject=...:signal=SIGSTOP:when=N`; as soon
    as the process performing the N-th selected syscall is parked in its stop,
    SIGKILL the whole session (builder, compiler, assembler, linker at once).
    -> ('killed' | 'finished', returncode)"""
    cmd = ['strace', '-f', '-qq'] + strace + [sys.executable, DRIVER, 'request', form, out, '--names', names]
    p = subprocess.Popen(cmd, env=_env(cache), stdout=subprocess.DEVNULL, stderr=subprocess.DEVNULL,
                         start_new_session=True)
    t0 = time.time()
    seen = {}
    try:
        while True:
            rc = p.poll()
            if rc is not None:
                return 'finished', rc
            if time.time() - t0 > timeout:
                raise RuntimeError('driver timed out')
            st = _stopped_in_group(p.pid)
            seen = {pid: seen.get(pid, 0) + 1 for pid in st}
            if any(n >= 4 for n in seen.values()):
                os.killpg(p.pid, signal.SIGKILL)
                p.wait()
                return 'killed', -9
            time.sleep(0.03)
    finally:
        if p.poll() is None:
            try:
                os.killpg(p.pid, signal.SIGKILL)
            except OSError:
                pass
            p.wait()


def sig_of(rc):
    if rc < 0:
        return -rc
    if rc > 128:
        return rc - 128
    return 0


# ----------------------------------------------------------------------------
# calibration = clean-cache reference build under a syscall trace

class CleanBuildFailed(Exception):
    pass


def calibrate(form, ref_dir):
    cache = os.path.join(ref_dir, 'cache-' + form)
    shutil.rmtree(cache, ignore_errors=True)
    log = os.path.join(ref_dir, 'trace-%s.log' % form)
    out = os.path.join(ref_dir, 'ref-%s.npy' % form)
    rc, tail = run_driver(form, cache, out, names=NAMES0, strace=['-y', '-o', log, '-e', 'trace=' + TRACE_CALLS])
    if rc == 3:
        raise CleanBuildFailed('a plain request for form %s into an empty cache (no faults, single process) failed: %s'
                               % (form, tail[-900:]))
    if rc != 0 or not os.path.exists(out):
        raise RuntimeError('reference build of %s failed rc=%s: %s' % (form, rc, tail))
    writes = {}     # path -> [count, pid]
    meta = {}       # pid -> {call: count}
    first_pid = None
    rel = lambda p: p.replace(cache, '$CACHE')     # noqa
    with open(log, errors='replace') as f:
        for ln in f:
            m = re.match(r'^(\d+)\s+(\w+)\((.*)$', ln)
            if not m:
                continue
            pid, call, rest = m.group(1), m.group(2), m.group(3)
            if first_pid is None:
                first_pid = pid
            if call in ('write', 'pwrite64'):
                mm = re.match(r'\d+<([^>]*)>', rest)
                if mm and mm.group(1).startswith(cache):
                    w = writes.setdefault(rel(mm.group(1)), [0, pid])
                    w[0] += 1
            elif call in META_CALLS and pid == first_pid:
                meta[call] = meta.get(call, 0) + 1
    cal = {'form': form, 'writes': writes, 'meta': meta, 'ref': out}
    with open(os.path.join(ref_dir, 'cal-%s.json' % form), 'w') as f:
        json.dump(cal, f)
    shutil.rmtree(cache, ignore_errors=True)
    return cal


def prepare(ref_dir, forms=FORMS):
    """Reference builds + calibration for all forms, in parallel."""
    import concurrent.futures as cf
    os.makedirs(ref_dir, exist_ok=True)
    with cf.ThreadPoolExecutor(max_workers=len(forms)) as ex:
        cals = list(ex.map(lambda f: calibrate(f, ref_dir), forms))
    return cals


def load_cal(ref_dir, form):
    with open(os.path.join(ref_dir, 'cal-%s.json' % form)) as f:
        return json.load(f)


def final_entries(cache):
    """sha of every final-name shared object in the cache directory."""
    out = {}
    for p in glob.glob(os.path.join(cache, 'pyiga', 'modules', 'mod*.so')):
        try:
            with open(p, 'rb') as f:
                out[os.path.basename(p)] = hashlib.sha256(f.read()).hexdigest()[:16]
        except OSError:
            pass
    return out


def same_matrix(a, b):
    import numpy as np
    try:
        A, B = np.load(a), np.load(b)
    except Exception:
        return False
    return A.shape == B.shape and A.tobytes() == B.tobytes()


# ----------------------------------------------------------------------------

def artefact_class(path):
    b = os.path.basename(path)
    for ext, cls in (('.pyx', 'pyx'), ('.c', 'c'), ('.o', 'o'), ('.so', 'so')):
        if b.endswith(ext):
            return cls
    return 'other'


def run_case(ctx):
    ref_dir = ctx.params['ref_dir']
    root = tempfile.mkdtemp(prefix='lb-', dir=env.scratch_root())
    try:
        _run(ctx, ref_dir, root)
    finally:
        shutil.rmtree(root, ignore_errors=True)


def _run(ctx, ref_dir, root):
    cfg = ctx.ch.stream('cfg')
    cache = os.path.join(root, 'cache')
    kinds = [('crash', 5), ('gated', 2)] if ctx.params.get('strace') else [('gated', 1)]
    kind = cfg.weighted(kinds)
    if ctx.params.get('kind'):
        kind = ctx.params['kind']
    completed = {}       # final entries seen after a successful request
    requested = []
    sig = lambda what, **kw: dict(what=what, layer='B', kind=kind, **kw)    # noqa
    ctx.count('layerB.' + kind)

    def check_writeonce(where):
        now = final_entries(cache)
        for n, h in completed.items():
            if now.get(n) != h:
                ctx.violation('entry-overwritten', '%s: completed cache entry %s changed (%s -> %s)'
                              % (where, n, h, now.get(n)), sig('write-once'))
                return False
        return True

    if kind == 'crash':
        form = FORMS[cfg.choice(len(FORMS))]
        cal = load_cal(ref_dir, form)
        requested.append(form)
        ncrash = cfg.weighted([(1, 5), (2, 3), (3, 1)])
        f = ctx.ch.stream('fault')
        for j in range(ncrash):
            names = 'vs%d' % j
            if f.chance(35):
                # the build FAILS without being killed: the C compiler (or the link step) reports an error, e.g. a full
                # disk or an OOM-killed cc1; the request may raise, the NEXT request must succeed
                mode = f.pick(['enospc', 'ldfail'])
                cc = failing_cc(root, mode)
                rc, tail = run_driver(form, cache, os.path.join(root, 'crash%d.npy' % j), names=names,
                                      extra_env={'CC': cc, 'LDSHARED': cc + ' -shared'})
                ctx.count('fault.toolchain-fails.%s' % mode)
                ctx.log(['toolchain-fails', form, mode, 'rc=%d' % rc])
                s = sig_of(rc)
                if s in (signal.SIGBUS, signal.SIGSEGV):
                    ctx.violation('interpreter-crash', 'building process died with signal %d: %s' % (s, tail[-300:]),
                                  sig('crash', phase=1))
                    return
                if rc == 0:
                    ctx.count('fault.toolchain-fails.not-reached')       # e.g. the form was already in the cache
                    completed.update(final_entries(cache))
                else:
                    ctx.count('fault.toolchain-fails.fired')
                continue
            if f.chance(70) and cal['writes']:
                paths = sorted(cal['writes'])
                # stratify over artefact classes
                classes = sorted(set(artefact_class(p) for p in paths))
                cls = classes[f.choice(len(classes))]
                cand = [p for p in paths if artefact_class(p) == cls]
                p = cand[f.choice(len(cand))]
                n = cal['writes'][p][0]
                stratum = f.weighted([('early', 2), ('mid', 2), ('late', 2), ('last', 1)])
                if stratum == 'early':
                    k = 1 + f.choice(max(1, n // 10))
                elif stratum == 'late':
                    k = max(1, n - f.choice(max(1, n // 10)))
                elif stratum == 'last':
                    k = n
                else:
                    k = 1 + f.choice(n)
                real = p.replace('$CACHE', cache).replace(NAMES0 + '_', names + '_')
                group = f.chance(70)
                how = 'SIGSTOP' if group else 'SIGKILL'
                st = ['-o', '/dev/null', '-P', real, '-e', 'trace=write,pwrite64',
                      '-e', 'inject=write,pwrite64:signal=%s:when=%d' % (how, k)]
                desc = ['kill-session-at-write' if group else 'kill-writer-at-write', cls, os.path.basename(p), k, n]
                ctx.count('fault.kill.write.%s.%s' % (cls, 'session' if group else 'writer'))
            else:
                calls = sorted(c for c in cal['meta'] if cal['meta'][c] > 0)
                c = calls[f.choice(len(calls))]
                k = 1 + f.choice(cal['meta'][c])
                st = ['-o', '/dev/null', '-e', 'trace=' + c, '-e', 'inject=%s:signal=SIGKILL:when=%d' % (c, k)]
                desc = ['kill-at-syscall', c, k, cal['meta'][c]]
                ctx.count('fault.kill.syscall.' + c)
                group = False
            if group:
                how, rc = run_driver_groupkill(form, cache, os.path.join(root, 'crash%d.npy' % j), names, st)
                tail = ''
                if how == 'killed':
                    ctx.count('fault.kill.session.fired')
            else:
                rc, tail = run_driver(form, cache, os.path.join(root, 'crash%d.npy' % j), names=names, strace=st)
            s = sig_of(rc)
            desc.append('rc=%d' % rc)
            ctx.log(['crash', form] + desc)
            if s == signal.SIGKILL or rc == 137:
                ctx.count('fault.kill.fired')
            elif s in (signal.SIGBUS, signal.SIGSEGV):
                ctx.violation('interpreter-crash', 'building process died with signal %d: %s' % (s, tail[-300:]),
                              sig('crash', phase=1))
                return
            elif rc == 0:
                ctx.count('fault.kill.not-reached')
                completed.update(final_entries(cache))
            else:
                ctx.count('crash.run.ended.with.exception')   # e.g. the compiler child was killed
    else:
        # gated real concurrency
        nproc = 2 + cfg.choice(3)
        forms = [FORMS[cfg.choice(2)] for _ in range(nproc)]
        if cfg.chance(60):
            forms = [forms[0]] * nproc          # same-form race
        kills = cfg.weighted([(0, 3), (1, 2)])
        requested += sorted(set(forms))
        ctx.log(['gated', forms, 'kills=%d' % kills])
        ok = gated(ctx, cache, root, forms, kills, completed, sig, ref_dir)
        if not ok:
            return
        if not check_writeonce('after gated phase'):
            return
    # ---------------- recovery: fresh processes, no faults
    for form in requested:
        for attempt in range(2):
            out = os.path.join(root, 'rec-%s-%d.npy' % (form, attempt))
            t0 = time.time()
            rc, tail = run_driver(form, cache, out)
            s = sig_of(rc)
            ctx.log(['recover', form, attempt, 'rc=%d' % rc, round(time.time() - t0, 1)])
            if s in (signal.SIGBUS, signal.SIGSEGV, signal.SIGILL, signal.SIGABRT, signal.SIGFPE):
                ctx.violation('interpreter-crash', 'fresh process requesting %s died with signal %d after: %s'
                              % (form, s, ctx.trace[-4:-1]), sig('crash', phase=2))
                return
            if rc != 0:
                ctx.violation('recovery-failed', 'fresh process, no faults: request for %s exited %d: %s'
                              % (form, rc, tail[-400:]), sig('recovery', phase=2))
                return
            if not same_matrix(out, load_cal(ref_dir, form)['ref']):
                ctx.violation('wrong-module', 'recovered assembler for %s assembles a different matrix than a '
                              'clean-cache build' % form, sig('wrong-module', phase=2))
                return
            if not check_writeonce('recovery of %s' % form):
                return
            completed.update(final_entries(cache))
            ctx.count('recovery.requests.ok')
    left = [os.path.basename(p) for p in glob.glob(os.path.join(cache, 'pyiga', 'modules', '*'))]
    ctx.count('leftover.entries.in.cache', len([x for x in left if not x.endswith('.so') or x.count('.') > 2 and False]))
    ctx.nontrivial = True
    ctx.state = (kind, tuple(sorted(x for x in left if not x.startswith('mod'))) != ())
    ctx.sim_time = 0.0


def gated(ctx, cache, root, forms, kills, completed, sig, ref_dir):
    sched = ctx.ch.stream('sched')
    f = ctx.ch.stream('fault')
    procs = []
    for i, form in enumerate(forms):
        out = os.path.join(root, 'g%d.npy' % i)
        p = subprocess.Popen([sys.executable, '-u', DRIVER, 'request', form, out, '--gate', '--names', 'g%d' % i],
                             env=_env(cache), stdin=subprocess.PIPE, stdout=subprocess.PIPE,
                             stderr=subprocess.DEVNULL, start_new_session=True)
        procs.append({'p': p, 'form': form, 'out': out, 'state': 'running', 'label': None, 'i': i, 'killed': False})

    def wait_event(pr, timeout=900):
        """read the child's stdout until READY/DONE/FAILED or EOF"""
        fd = pr['p'].stdout
        deadline = time.time() + timeout
        while True:
            r, _, _ = select.select([fd], [], [], max(0.0, deadline - time.time()))
            if not r:
                raise RuntimeError('gated child %d timed out at %s' % (pr['i'], pr['label']))
            line = fd.readline()
            if not line:
                pr['state'] = 'exited'
                return
            line = line.decode(errors='replace').rstrip('\n')
            if line.startswith('READY '):
                pr['state'], pr['label'] = 'parked', line[6:]
                return
            if line in ('DONE', 'FAILED'):
                pr['state'] = 'finishing'
                pr['result'] = line
                continue
    try:
        for pr in procs:
            wait_event(pr)
        order = []
        steps = 0
        switches = 0
        last = None
        while True:
            parked = [pr for pr in procs if pr['state'] == 'parked']
            if not parked:
                break
            pr = parked[sched.choice(len(parked))]
            steps += 1
            if last is not None and last is not pr and last['state'] == 'parked':
                switches += 1
            last = pr
            if kills > 0 and pr['label'] and not pr['label'].startswith('import') and f.chance(10):
                kills -= 1
                os.killpg(pr['p'].pid, signal.SIGKILL)
                pr['p'].wait()
                pr['state'], pr['killed'] = 'exited', True
                ctx.log(['kill-parked', pr['i'], pr['label']])
                ctx.count('fault.kill.fired')
                ctx.count('fault.kill.at.gate.' + pr['label'].split(':')[0])
                continue
            order.append('%d:%s' % (pr['i'], pr['label'].split(':')[0]))
            pr['p'].stdin.write(b'\n')
            pr['p'].stdin.flush()
            wait_event(pr)
            # write-once at stage granularity
            now = final_entries(cache)
            for n, h in completed.items():
                if now.get(n) != h:
                    ctx.violation('entry-overwritten', 'after stage %s: completed entry %s changed' % (order[-1], n),
                                  sig('write-once'))
                    return False
            if pr['state'] == 'exited' and pr['p'].wait() == 0:
                completed.update(now)
        ctx.log(['schedule', order])
        ctx.count('gated.stage.steps', steps)
        ctx.count('gated.context.switches', switches)
        for pr in procs:
            rc = pr['p'].wait(timeout=60)
            if pr['killed']:
                continue
            s = sig_of(rc)
            if s in (signal.SIGBUS, signal.SIGSEGV, signal.SIGILL, signal.SIGABRT):
                ctx.violation('interpreter-crash', 'process %d (%s) died with signal %d under schedule %s'
                              % (pr['i'], pr['form'], s, order), sig('crash', phase=1))
                return False
            if rc != 0:
                ctx.violation('request-failed', 'process %d (%s), no fault injected into it, exited %d under schedule %s'
                              % (pr['i'], pr['form'], rc, order), sig('request-failed', phase=1))
                return False
            if not same_matrix(pr['out'], load_cal(ref_dir, pr['form'])['ref']):
                ctx.violation('wrong-module', 'process %d requested %s and assembled a different matrix than a clean-cache '
                              'build (schedule %s)' % (pr['i'], pr['form'], order), sig('wrong-module', phase=1))
                return False
        return True
    finally:
        for pr in procs:
            if pr['p'].poll() is None:
                try:
                    os.killpg(pr['p'].pid, signal.SIGKILL)
                except OSError:
                    pass
                pr['p'].wait()


# ----------------------------------------------------------------------------
# conformance of the Layer A stub contract with the real tool-chain

_IMPORT_SNIPPET = r'''
import sys, importlib
sys.path.insert(0, %r)
try:
    m = importlib.import_module(%r)
    print("NAMESPACE" if getattr(m, "__file__", None) is None else "LOADED")
except ImportError as e:
    print("IMPORTERROR", str(e)[:80])
'''


def conformance(ref_dir, form='F0'):
    """Import truncated copies of a real shared object in fresh interpreters and
    compare the outcome class with what the stub's classify_so() predicts for
    the same relative size."""
    from . import cachesim
    work = tempfile.mkdtemp(prefix='conf-', dir=env.scratch_root())
    try:
        cache = os.path.join(work, 'cache')
        rc, tail = run_driver(form, cache, os.path.join(work, 'o.npy'))
        if rc != 0:
            raise RuntimeError('conformance build failed: ' + tail)
        so = glob.glob(os.path.join(cache, 'pyiga', 'modules', 'mod*.so'))[0]
        data = open(so, 'rb').read()
        name = os.path.basename(so).split('.')[0]
        total = len(data)
        stub_so = cachesim.make_so(cachesim.make_o(cachesim.make_c(cachesim.src_text('x').encode())), 'n')
        rows = []
        ns = len(stub_so)
        H = cachesim.HDR_LEN
        # (label, real size, stub size): same position relative to header / load extent
        cases = [('empty', 0, 0), ('shorter-than-header', 32, H // 2), ('header-plus-little', 4096, H + 8),
                 ('tenth', total // 10, H + (ns - H) // 10), ('quarter', total // 4, H + (ns - H) // 4),
                 ('most', int(total * 0.9), int(ns * 0.9)), ('complete', total, ns)]
        import concurrent.futures as cf

        cases.append(('directory-named-like-the-module', -1, -1))
        cases.append(('directory-and-complete-file', total, ns))

        def one(case):
            label, nreal, nstub = case
            d = os.path.join(work, 'case-' + label)
            os.makedirs(d)
            if label.startswith('directory'):
                os.makedirs(os.path.join(d, name))          # e.g. a per-module build/lock directory
            if nreal >= 0:
                with open(os.path.join(d, os.path.basename(so)), 'wb') as f:
                    f.write(data[:nreal])
            e = dict(os.environ)
            e['PYTHONPATH'] = env.REPO
            p = subprocess.run([sys.executable, '-c', _IMPORT_SNIPPET % (d, name)], stdout=subprocess.PIPE,
                               stderr=subprocess.DEVNULL, env=e, timeout=120)
            out = p.stdout.decode(errors='replace')
            if sig_of(p.returncode) in (signal.SIGBUS, signal.SIGSEGV):
                real = 'crash'
            elif 'NAMESPACE' in out:
                real = 'namespace'
            elif 'LOADED' in out:
                real = 'ok'
            elif 'IMPORTERROR' in out:
                real = 'importerror'
            else:
                real = 'other(rc=%d)' % p.returncode
            if label.startswith('directory'):
                ds = os.path.join(work, 'stub-' + label)
                os.makedirs(os.path.join(ds, name))
                if nstub >= 0:
                    with open(os.path.join(ds, name + cachesim.EXT), 'wb') as f:
                        f.write(stub_so[:nstub])
                stub = cachesim.resolve_import([ds], name)[0]
            else:
                stub = cachesim.classify_so(stub_so[:nstub])[0]
            return {'case': label, 'real_bytes': nreal, 'stub_bytes': nstub, 'real': real, 'stub': stub,
                    'agree': real == stub}
        with cf.ThreadPoolExecutor(max_workers=len(cases)) as ex:
            rows = list(ex.map(one, cases))
        return {'shared_object_bytes': total, 'table': rows,
                'agreements': sum(1 for r in rows if r['agree']), 'cases': len(rows),
                'real_has_fatal_signal_class': any(r['real'] == 'crash' for r in rows),
                'note': 'prefix truncation is the fault model of the property statement; GNU ld itself writes the ELF header '
                        'last, so a link killed mid-way (Layer B session kills) leaves an unloadable file (ImportError), not a prefix'}
    finally:
        shutil.rmtree(work, ignore_errors=True)
