"""C05 invariants on simulated refinement histories: transfers between nested
hierarchical spaces preserve the function (hierarchical clauses only)."""
import numpy as np
import scipy.sparse as sp

from .hsim import RAISED, TOL, dense, maxabs


def _rank(A, tol=1e-9):
    A = dense(A)
    if A.size == 0:
        return 0
    s = np.linalg.svd(A, compute_uv=False)
    return int((s > tol * max(1.0, s[0])).sum())


def final_checks(w):
    ctx, hs, m, cfg = w.ctx, w.hs, w.model, w.cfg
    dim = cfg['dim']
    L = hs.numlevels
    if m.L != L:
        ctx.count('skipped.level-count-differs')
        return
    q = ctx.ch.stream('data')
    sig = lambda what, **kw: dict(what=what, **kw)     # noqa

    IM = m.represent_fine_hb()
    nd = hs.numdofs
    # ---- (a) representation matrices vs the independent model
    IH = ctx.call('represent_fine', hs.represent_fine, truncate=False)
    if IH is RAISED():
        return
    ctx.check(IH.shape == IM.shape and maxabs(IH - IM) <= TOL, 'represent-fine-hb',
              lambda: 'differs from the independent model by %.3g' % maxabs(IH - IM), sig('represent'))
    for lv in range(L):
        Il = ctx.call('represent_fine(lv)', hs.represent_fine, lv=lv, truncate=False)
        if Il is RAISED():
            return
        Ml = m.represent_fine_hb(lv=lv)
        ctx.check(Il.shape == Ml.shape and maxabs(Il - Ml) <= TOL, 'represent-fine-level',
                  lambda: 'represent_fine(lv=%d) differs from the model by %.3g' % (lv, maxabs(Il - Ml) if Il.shape == Ml.shape else -1),
                  sig('represent'))
    # ---- (b) tensor-product prolongators of successive levels
    for lv in range(L - 1):
        P = ctx.call('tp_prolongation', hs.tp_prolongation, lv, kron=True)
        if P is RAISED():
            return
        ctx.check(maxabs(P - m.prolong(lv)) <= TOL, 'tp-prolongation',
                  lambda: 'level %d -> %d prolongator differs from least-squares reference by %.3g'
                  % (lv, lv + 1, maxabs(P - m.prolong(lv))), sig('tp-prolongation'))
    T = ctx.call('thb_to_hb', hs.thb_to_hb)
    if T is RAISED():
        return
    # the transform itself against the model's (truncation from the definition + least squares), so that the THB
    # evaluation references below do not lean on pyiga's own matrix
    if nd * IM.shape[0] <= 400000:
        Tm = m.thb_to_hb()
        ctx.check(T.shape == Tm.shape and maxabs(dense(T) - Tm) <= 1e-9, 'thb-to-hb-vs-definition',
                  lambda: 'thb_to_hb() differs from the transform derived from the definition of truncation by %.3g '
                  '(%d levels, disparity %s, history %s)' % (maxabs(dense(T) - Tm) if T.shape == Tm.shape else -1, L, cfg['disparity'], w.history),
                  sig('thb'))
        ITm = m.represent_fine_thb()
        ITp = ctx.call('represent_fine(truncate)', hs.represent_fine, truncate=True)
        if ITp is RAISED():
            return
        ctx.check(ITp.shape == ITm.shape and maxabs(ITp - ITm) <= TOL, 'represent-fine-thb',
                  lambda: 'represent_fine(truncate=True) differs from the definition of the truncated basis by %.3g'
                  % (maxabs(ITp - ITm) if ITp.shape == ITm.shape else -1), sig('represent'))
        T = sp.csr_matrix(Tm)
        ctx.count('thb.transform.checked')
    # ---- (c) prolongate_to from every snapshot (coarse) to the final space (fine)
    for (S, mS, step) in w.snapshots:
        if mS.L > m.L:
            continue
        P = ctx.call('prolongate_to', S.prolongate_to, hs)
        if P is RAISED():
            return
        ctx.count('prolongate_to.checked')
        gap = (m.L - 1) - 0
        lhs = IM @ P
        rhs = m.prolong_between(mS.L - 1, m.L - 1) @ mS.represent_fine_hb()
        same = (mS.state_key() == m.state_key())
        if not same:
            ctx.count('prolongate_to.proper-refinement')
        finite = cfg['disparity'] != np.inf
        ctx.check(lhs.shape == rhs.shape and maxabs(lhs - rhs) <= TOL, 'prolongate-to',
                  lambda: 'snapshot after op %d (levels %d) -> final space (levels %d): function not preserved, '
                  'max coefficient error %.3g on the finest level (disparity %s)' %
                  (step, mS.L, m.L, maxabs(lhs - rhs) if lhs.shape == rhs.shape else -1, cfg['disparity']),
                  sig('prolongate_to', finite_disparity=bool(finite)))
    # ---- (d) virtual hierarchy prolongators
    # seeded call order, and the default argument (= the space's own flag) in between: the result must depend
    # on the argument only, not on what was asked before on the same object
    vh_order = [(False, True), (True, False)][q.choice(2)]
    for trunc in vh_order:
        Ps = ctx.call('virtual_hierarchy_prolongators', hs.virtual_hierarchy_prolongators, truncate=trunc)
        if Ps is RAISED():
            return
        Pd = ctx.call('virtual_hierarchy_prolongators', hs.virtual_hierarchy_prolongators)
        if Pd is RAISED():
            return
        Pe = ctx.call('virtual_hierarchy_prolongators', hs.virtual_hierarchy_prolongators, truncate=bool(hs.truncate))
        if Pe is RAISED():
            return
        ctx.check(len(Pd) == len(Pe) and all(a.shape == b.shape and maxabs(a - b) == 0 for a, b in zip(Pd, Pe)),
                  'vh-default-argument', 'virtual_hierarchy_prolongators() with the default argument differs from '
                  'truncate=hs.truncate (%s) after a call with truncate=%s' % (hs.truncate, trunc), sig('vh-default'))
        ctx.check(len(Ps) == L - 1, 'vh-count', '%d prolongators for %d levels' % (len(Ps), L), sig('vh'))
        if len(Ps) != L - 1:
            continue
        Ifin = IM @ T if trunc else IM
        ctx.count('vh.checked.%s.levels%d' % ('thb' if trunc else 'hb', min(L, 4)))
        # composition from level k to the finest level
        prod = sp.identity(nd, format='csr')
        ok_shapes = True
        for k in range(L - 2, -1, -1):
            if Ps[k].shape[0] != prod.shape[1]:
                ok_shapes = False
                break
            prod = prod @ Ps[k]
            # columns must span exactly the virtual level-k spline space
            Vk = m.prolong_between(k, L - 1) @ m.represent_fine_hb(lv=k)
            A = dense(Ifin @ prod)
            B = dense(Vk)
            if A.shape != B.shape:
                ctx.violation('vh-span', 'composition from level %d has shape %s, virtual space has %s'
                              % (k, A.shape, B.shape), sig('vh', truncate=trunc, levels3=bool(L >= 3)))
                continue
            if A.shape[0] * A.shape[1] <= 500000:
                rA, rB, rAB = _rank(A), _rank(B), _rank(np.hstack([A, B]))
                ctx.check(rA == rB == rAB == B.shape[1], 'vh-span',
                          lambda: 'truncate=%s: composition of virtual-hierarchy prolongators from level %d of %d does not '
                          'span that level\'s space (ranks %d, %d, joint %d, expected %d)' % (trunc, k, L, rA, rB, rAB, B.shape[1]),
                          sig('vh', truncate=trunc, levels3=bool(L >= 3)))
        if not ok_shapes:
            ctx.violation('vh-shapes', 'prolongator shapes do not chain', sig('vh', truncate=trunc, levels3=bool(L >= 3)))
            continue
        # full composition: level-0 TP coefficients (order: active then deactivated) -> (T)HB coefficients
        act0, de0 = m.functions(0)
        IR0 = m.ravel(0, sorted(act0) + sorted(de0))
        want = m.prolong_between(0, L - 1)[:, IR0]
        got = Ifin @ prod
        ctx.check(got.shape == want.shape and maxabs(got - want) <= TOL, 'vh-composition',
                  lambda: 'truncate=%s, %d levels: composition of all virtual-hierarchy prolongators does not map level-0 '
                  'coefficients to the coefficients of the same function (error %.3g)' %
                  (trunc, L, maxabs(got - want) if got.shape == want.shape else -1),
                  sig('vh', truncate=trunc, levels3=bool(L >= 3)))
    # ---- (e) HSplineFunc evaluation = evaluation of the finest TP representation
    from pyiga import bspline, hierarchical
    rng = np.random.RandomState(q.choice(2 ** 16))
    u = rng.uniform(-1, 1, nd)
    kv_f = hs.knotvectors(L - 1)
    nf = m.nfuncs(L - 1)
    for trunc in (False, True, None):
        f = ctx.call('HSplineFunc', hierarchical.HSplineFunc, hs, u, truncate=trunc)
        if f is RAISED():
            return
        eff = hs.truncate if trunc is None else trunc
        coef = (IM @ (T @ u)) if eff else (IM @ u)
        ref = bspline.BSplineFunc(kv_f, coef.reshape(nf))
        ps = cfg.get('pscale', 1.0)
        grid = [np.sort(rng.uniform(0, 1, 3 + rng.randint(3))) * ps for _ in range(dim)]
        if rng.randint(2):
            grid[0] = np.concatenate(([0.0], grid[0], [ps]))
        for d in range(dim):
            # points exactly ON mesh lines of some level (where the level-wise contributions change and
            # derivatives of low-degree splines jump; evaluation is right-continuous on every level)
            if rng.randint(2):
                lvk = rng.randint(L)
                msh = m.mesh(lvk, d)
                pts = msh[rng.randint(len(msh), size=1 + rng.randint(3))]
                grid[d] = np.unique(np.concatenate((grid[d], pts)))
                ctx.count('eval.grid.on-meshlines')
        for nm in ('grid_eval', 'grid_jacobian', 'grid_hessian'):
            if nm == 'grid_hessian' and min(cfg['degs']) < 1:
                continue
            a = ctx.call('HSplineFunc.' + nm, getattr(f, nm), grid)
            if a is RAISED():
                return
            b = getattr(ref, nm)(grid)
            a, b = np.asarray(a, float), np.asarray(b, float)
            scale = max(1.0, np.abs(b).max(initial=0.0))
            ctx.check(a.shape == b.shape and np.abs(a - b).max(initial=0.0) <= 1e-9 * scale, 'hspline-' + nm,
                      lambda: 'truncate=%s: differs from the finest-level TP representation by %.3g' %
                      (trunc, np.abs(a - b).max() if a.shape == b.shape else -1), sig('eval', fn=nm))
        # single points: interior, exactly at the two ends of the parameter domain, exactly on mesh lines of seeded levels
        for _ in range(4):
            pt = []
            for d in range(dim):
                kind = rng.randint(5)
                if kind == 0:
                    pt.append(0.0)
                elif kind == 1:
                    pt.append(float(ps))
                elif kind == 2:
                    msh = m.mesh(rng.randint(L), d)
                    pt.append(float(msh[rng.randint(len(msh))]))
                else:
                    pt.append(float(rng.uniform(0, 1) * ps))
            pt = tuple(pt)
            a = ctx.call('HSplineFunc.__call__', f, *pt)
            if a is RAISED():
                return
            b = ref(*pt)
            ctx.check(np.ndim(a) == 0 or np.size(a) == 1, 'hspline-call-shape', lambda: 'f%s returned shape %s' % (pt, np.shape(a)), sig('eval', fn='call'))
            a_, b_ = float(np.asarray(a).ravel()[0]), float(np.asarray(b).ravel()[0])
            ctx.check(abs(a_ - b_) <= 1e-9 * max(1.0, abs(b_)), 'hspline-call',
                      lambda: 'truncate=%s: f%s = %r, the finest-level TP representation gives %r' % (trunc, pt, a_, b_), sig('eval', fn='call'))
            ctx.count('eval.single-points')
        ctx.count('eval.checked')
    # ---- (f) restriction to a boundary face
    if dim >= 2:
        faces = [(ax, s) for ax in range(dim) for s in (0, 1)]
        bd = faces[q.choice(len(faces))]
        r = ctx.call('boundary', hs.boundary, bd)
        if r is RAISED():
            return
        bh, idx = r
        idx = np.asarray(idx, dtype=int)
        ok = (bh.dim == dim - 1 and len(idx) == bh.numdofs and len(set(idx.tolist())) == len(idx)
              and (len(idx) == 0 or (idx.min() >= 0 and idx.max() < nd)))
        ctx.check(ok, 'boundary-indexmap', lambda: 'boundary(%s): %d indices for a space with %d dofs'
                  % (bd, len(idx), bh.numdofs), sig('boundary'))
        if ok:
            for trunc in (False, True):
                f = hierarchical.HSplineFunc(hs, u, truncate=trunc)
                fb = hierarchical.HSplineFunc(bh, u[idx], truncate=trunc)
                ps = cfg.get('pscale', 1.0)
                grid = [np.sort(rng.uniform(0, 1, 4)) * ps for _ in range(dim)]
                grid[bd[0]] = np.array([0.0 if bd[1] == 0 else ps])
                a = ctx.call('trace.grid_eval', f.grid_eval, grid)
                gb = [g for i, g in enumerate(grid) if i != bd[0]]
                b = ctx.call('boundary.grid_eval', fb.grid_eval, gb)
                if a is RAISED() or b is RAISED():
                    return
                a = np.asarray(a, float).reshape(np.asarray(b).shape)
                ctx.check(np.abs(a - np.asarray(b, float)).max(initial=0.0) <= 1e-9 * max(1.0, np.abs(a).max(initial=0.0)),
                          'boundary-trace', lambda: 'boundary(%s), truncate=%s: trace of the function differs from the '
                          'boundary function with the restricted coefficients by %.3g' % (bd, trunc, np.abs(a - b).max()),
                          sig('boundary'))
            ctx.count('boundary.checked')
