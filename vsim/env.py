"""Process environment: which tree is under test, private caches, builds."""
import atexit
import fcntl
import os
import shutil
import subprocess
import sys
import tempfile

REPO = os.environ.get('VERIF_REPO', '/repo')
PY = sys.executable or '/venv/bin/python'
_scratch = None


def scratch_root():
    """A fresh private scratch directory (removed at interpreter exit of the
    process that created it)."""
    global _scratch
    inherited = os.environ.get('VSIM_SCRATCH_ROOT')
    if inherited and os.path.isdir(inherited):
        # created by the parent check process, which also removes it
        _scratch = inherited
        return _scratch
    if _scratch is None or not os.path.isdir(_scratch):
        base = os.environ.get('VSIM_SCRATCH_BASE')
        if not base:
            base = '/dev/shm' if os.access('/dev/shm', os.W_OK) else tempfile.gettempdir()
        _scratch = tempfile.mkdtemp(prefix='vsim-', dir=base)
        pid = os.getpid()

        def _cleanup(path=_scratch, pid=pid):
            if os.getpid() == pid:
                shutil.rmtree(path, ignore_errors=True)
        atexit.register(_cleanup)
        os.environ['VSIM_SCRATCH_ROOT'] = _scratch
    return _scratch


def setup_import():
    """Make `import pyiga` resolve to VERIF_REPO and give this process tree a
    private pyiga module cache."""
    if REPO not in sys.path[:1]:
        sys.path.insert(0, REPO)
    os.environ['PYTHONPATH'] = REPO + os.pathsep + os.environ.get('PYTHONPATH', '')
    if not os.environ.get('VSIM_XDG'):
        xdg = os.path.join(scratch_root(), 'xdg')
        os.makedirs(xdg, exist_ok=True)
        os.environ['VSIM_XDG'] = xdg
    os.environ['XDG_CACHE_HOME'] = os.environ['VSIM_XDG']
    os.environ.setdefault('MPLBACKEND', 'Agg')


def ensure_built(quiet=True):
    """(Re)build the package extensions of the tree under test in place, so that
    edits to .pyx/.pxi files are picked up.  0.7 s when up to date."""
    lockdir = os.path.join(REPO, 'build')
    os.makedirs(lockdir, exist_ok=True)
    with open(os.path.join(lockdir, '.vsim.lock'), 'w') as lk:
        fcntl.flock(lk, fcntl.LOCK_EX)
        env = dict(os.environ)
        env.pop('PYTHONPATH', None)
        p = subprocess.run([PY, 'setup.py', 'build_ext', '--inplace', '-q'], cwd=REPO,
                           stdout=subprocess.PIPE, stderr=subprocess.STDOUT, env=env,
                           timeout=1500)
        if p.returncode != 0:
            sys.stdout.write(p.stdout.decode(errors='replace')[-4000:])
            raise RuntimeError('build_ext failed in %s (rc=%d)' % (REPO, p.returncode))
    return True
