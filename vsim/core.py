"""vsim core: seeded choice streams, violations, minimiser, replay files.

Everything a simulated run decides -- configuration knobs, the operation
history, which actor runs next, where a fault lands -- is drawn through a
`Choices` object.  In *generate* mode each named stream is an independent PRNG
derived from (run_seed, stream name) and every draw is recorded; in *replay*
mode the recorded lists are played back (no PRNG involved), so a run is a pure
function of the recorded choice lists and the code under test.  Shrinking works
on the recorded lists (delete blocks, lower values) the way Hypothesis shrinks
its choice sequence; by convention the value 0 is always the simplest option
(no fault, first runnable actor, smallest size, ...).

Nothing in here reads a clock or draws from a PRNG for logging purposes.
"""
import hashlib
import json
import os
import random


def H(*parts):
    """Stable 64-bit hash of the parts (independent of PYTHONHASHSEED)."""
    h = hashlib.sha256()
    for p in parts:
        h.update(repr(p).encode())
        h.update(b'\x00')
    return int.from_bytes(h.digest()[:8], 'big')


def digest(obj):
    return hashlib.sha256(json.dumps(obj, sort_keys=True, default=str).encode()).hexdigest()[:16]


class Violation(Exception):
    """A property violation found by an oracle (not a harness problem)."""

    def __init__(self, invariant, detail='', signature=None):
        super().__init__('%s: %s' % (invariant, detail))
        self.invariant = invariant
        self.detail = detail
        # signature: small dict identifying the *kind* of failure (used to match
        # known findings and to keep the minimiser on the same failure class)
        self.signature = dict(signature or {})
        self.signature.setdefault('invariant', invariant)


class Exhausted(Exception):
    """Raised in strict replay when a stream runs out (only used by tests)."""


class Stream:
    __slots__ = ('name', 'rng', 'rec', 'play', 'pos')

    def __init__(self, name, rng=None, play=None):
        self.name = name
        self.rng = rng
        self.play = play
        self.rec = []
        self.pos = 0

    def choice(self, n):
        """An int in [0, n).  0 is the simplest value."""
        if n <= 1:
            return 0
        if self.play is not None:
            if self.pos < len(self.play):
                v = self.play[self.pos] % n
            else:
                v = 0
            self.pos += 1
        else:
            v = self.rng.randrange(n)
        self.rec.append(v)
        return v

    def chance(self, num, den=100):
        """True with probability num/den; False is the simple outcome."""
        if num <= 0:
            return False
        # draw so that small recorded values mean False
        return self.choice(den) >= den - num

    def pick(self, seq):
        return seq[self.choice(len(seq))]

    def weighted(self, items):
        """items: list of (value, weight) -- first item is the simplest."""
        tot = sum(w for _, w in items)
        r = self.choice(tot)
        for v, w in items:
            if r < w:
                return v
            r -= w
        return items[-1][0]

    def intrange(self, lo, hi):
        return lo + self.choice(hi - lo + 1)

    def sample_positions(self, n, kmax):
        """up to kmax distinct positions in range(n) (at least one if n>0)."""
        if n <= 0:
            return []
        k = 1 + self.choice(min(kmax, n))
        out = []
        for _ in range(k):
            v = self.choice(n)
            if v not in out:
                out.append(v)
        return out

    def shuffle(self, seq):
        seq = list(seq)
        out = []
        while seq:
            out.append(seq.pop(self.choice(len(seq))))
        return out


class Choices:
    def __init__(self, run_seed=None, recorded=None):
        self.run_seed = run_seed
        self.recorded = recorded  # dict name -> list, or None in generate mode
        self.streams = {}

    def stream(self, name):
        s = self.streams.get(name)
        if s is None:
            if self.recorded is not None:
                s = Stream(name, play=list(self.recorded.get(name, [])))
            else:
                s = Stream(name, rng=random.Random(H(self.run_seed, name)))
            self.streams[name] = s
        return s

    def record(self):
        return {k: list(s.rec) for k, s in sorted(self.streams.items())}


# --------------------------------------------------------------------------
# minimiser over recorded choice lists

class _Budget(Exception):
    pass


def minimise(record, still_fails, budget=400, order=None):
    """Greedy shrinking of a choice record {stream: [ints]}.

    still_fails(record) -> (bool, normalised_record_or_None).  The normalised
    record (what the run actually consumed) replaces the candidate on success,
    so unused tail values disappear.  Stops after `budget` executions.
    Passes per stream: delete blocks (coarse to fine, back to front), zero
    blocks, lower single values (0, then bisection); repeated to a fixpoint.
    """
    state = {'cur': {k: list(v) for k, v in record.items()}, 'used': 0}

    def attempt(name, cand_list):
        if state['used'] >= budget:
            raise _Budget()
        state['used'] += 1
        cand = dict(state['cur'])
        cand[name] = cand_list
        ok, norm = still_fails(cand)
        if not ok:
            return False
        new = norm if norm is not None else cand
        if _size(new) < _size(state['cur']):
            state['cur'] = {k: list(v) for k, v in new.items()}
            return True
        return False

    names = list(order) if order else sorted(state['cur'])
    names += [k for k in sorted(state['cur']) if k not in names]
    try:
        improved = True
        while improved:
            improved = False
            for name in names:
                if name not in state['cur']:
                    continue
                # 1. delete blocks
                size = max(1, len(state['cur'].get(name, [])) // 2)
                while size >= 1:
                    i = len(state['cur'].get(name, [])) - size
                    while i >= 0:
                        lst = state['cur'].get(name, [])
                        if i + size <= len(lst) and attempt(name, lst[:i] + lst[i + size:]):
                            improved = True
                            i = min(i, len(state['cur'].get(name, [])) - size)
                        else:
                            i -= size if size > 1 else 1
                    size //= 2
                # 2. zero blocks
                size = max(1, len(state['cur'].get(name, [])) // 2)
                while size >= 1:
                    i = 0
                    while i < len(state['cur'].get(name, [])):
                        lst = state['cur'].get(name, [])
                        blk = lst[i:i + size]
                        if any(blk) and attempt(name, lst[:i] + [0] * len(blk) + lst[i + size:]):
                            improved = True
                        i += size
                    size //= 2
                # 3. lower single values
                i = 0
                while i < len(state['cur'].get(name, [])):
                    lst = state['cur'].get(name, [])
                    v = lst[i]
                    if v > 0:
                        lo, hi = 0, v      # smallest value in [lo,hi] known failing: hi
                        if attempt(name, lst[:i] + [0] + lst[i + 1:]):
                            improved = True
                        else:
                            lo = 1
                            while lo < hi:
                                lst = state['cur'].get(name, [])
                                if i >= len(lst):
                                    break
                                mid = (lo + hi) // 2
                                if attempt(name, lst[:i] + [mid] + lst[i + 1:]):
                                    improved = True
                                    hi = mid
                                else:
                                    lo = mid + 1
                    i += 1
    except _Budget:
        pass
    return state['cur'], state['used']


def _size(rec):
    return (sum(len(v) for v in rec.values()), sum(sum(v) for v in rec.values()))


# --------------------------------------------------------------------------
# known findings

def load_known(path):
    if not os.path.exists(path):
        return []
    with open(path) as f:
        return json.load(f).get('findings', [])


def match_known(known, prop, signature):
    """Return the entry of status 'known' whose signature is a subset of the
    violation's signature (same property).  'fixed' entries never match."""
    for e in known:
        if e.get('property') != prop or e.get('status') != 'known':
            continue
        sig = e.get('signature', {})
        if sig and all(signature.get(k) == v for k, v in sig.items()):
            return e
    return None
