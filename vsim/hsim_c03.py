"""C03 invariants on simulated refinement histories: hierarchical assembly is
the Galerkin restriction I^T A_fine I of the finest-level tensor-product
assembly (polynomial integrands, affine geometry), THB = congruence of HB,
symmetric assembly == general assembly, functionals likewise.  One
HDiscretization object per form is kept alive along the history, so its
assembler-class memo and its temporary truncate flip are exercised."""
import concurrent.futures as cf
import os
import subprocess
import sys
import time

import numpy as np
import scipy.sparse as sp

from . import env
from .hsim import RAISED, dense, maxabs

FORMS = ('mass', 'stiffness', 'conv', 'l2')


def make_form(name, dim):
    from pyiga import vform
    if name == 'mass':
        return vform.mass_vf(dim)
    if name == 'stiffness':
        return vform.stiffness_vf(dim)
    if name == 'conv':
        V = vform.VForm(dim)
        u, v = V.basisfuns()
        V.add(u.dx(0) * v * vform.dx)
        return V
    if name == 'conv2':
        V = vform.VForm(dim)
        u, v = V.basisfuns()
        V.add((u.dx(dim - 1) + 0.5 * u) * v * vform.dx)
        return V
    if name == 'l2':
        return vform.L2functional_vf(dim, physical=True)
    if name == 'l2dx':
        # a second functional with the same input names as 'l2'
        V = vform.VForm(dim, arity=1)
        v = V.basisfuns()
        f = V.input('f', shape=(), physical=True)
        V.add(f * (v.dx(0) + 0.5 * v) * vform.dx)
        return V
    raise AssertionError(name)


ALLFORMS = ('mass', 'stiffness', 'conv', 'conv2', 'l2', 'l2dx')


def make_geo(kind, dim):
    from pyiga import geometry
    g = geometry.line_segment(0.0, 1.0) if dim == 1 else (geometry.unit_square() if dim == 2 else geometry.unit_cube())
    if kind == 'identity':
        return g
    if kind == 'scaled':
        return g.scale(2.0) if dim == 1 else g.scale(tuple([2.0, 0.5, 1.5][:dim]))
    if kind == 'micro':
        # a physically small domain (micrometres): genuine matrix entries far below 1e-14 in absolute terms
        return g.scale(2e-5) if dim == 1 else g.scale(tuple([2e-5, 3e-5, 1e-5][:dim]))
    if kind == 'shifted':
        return g.translate(tuple([1.0, -2.0, 0.5][:dim]))
    if kind == 'curved':
        if dim == 2:
            return geometry.quarter_annulus()
        from pyiga import bspline
        import numpy as np
        kv = bspline.make_knots(2, 0.0, 1.0, 1)
        return bspline.BSplineFunc((kv,), np.array([[0.0], [0.3], [1.5]]))     # x(t) quadratic, monotone
    raise AssertionError(kind)


def levelwise_reference(m, mats):
    """Entry (i,j) of the hierarchical matrix = form applied to HB functions j and i
    with the quadrature of the FINER of their two levels:  want[i,j] = (I_k^T A_k I_k)[i,j],
    k = max(level i, level j), I_k = HB representation on level k (independent model)."""
    import numpy as np
    L = m.L
    nact = [len(m.functions(l)[0]) for l in range(L)]
    off = np.concatenate(([0], np.cumsum(nact)))
    nd = int(off[-1])
    want = np.zeros((nd, nd))
    for k in range(L):
        Ik = m.represent_fine_hb(lv=k)
        Bk = (Ik.T @ mats[k] @ Ik)
        Bk = Bk.toarray() if hasattr(Bk, 'toarray') else np.asarray(Bk)
        n_upto = int(off[k + 1])            # active functions of levels <= k come first in I_k's columns
        Bk = Bk[:n_upto, :n_upto]
        lo = int(off[k])
        want[lo:n_upto, :n_upto] = Bk[lo:n_upto, :]
        want[:n_upto, lo:n_upto] = Bk[:, lo:n_upto]
    return want


def levelwise_reference_vec(m, vecs):
    import numpy as np
    L = m.L
    nact = [len(m.functions(l)[0]) for l in range(L)]
    off = np.concatenate(([0], np.cumsum(nact)))
    want = np.zeros(int(off[-1]))
    for k in range(L):
        Ik = m.represent_fine_hb(lv=k)
        bk = np.asarray(Ik.T @ vecs[k]).ravel()
        want[int(off[k]):int(off[k + 1])] = bk[int(off[k]):int(off[k + 1])]
    return want


_COMPILE_SNIPPET = r'''
import sys
sys.path.insert(0, %(verif)r)
from vsim import env
env.setup_import()
from vsim import hsim_c03
from pyiga import compile
vf = hsim_c03.make_form(%(name)r, %(dim)d)
compile.compile_vform(vf, on_demand=%(od)r)
'''


STRFORMS = {'strl2': 'f * v * dx', 'strmass': 'f * u * v * dx'}


def str_field(kind, dim, k=0):
    """Input for the name f of a string problem: a B-spline function of the PARAMETERS (parse_vf makes it a
    parametric input field) or a plain callable of the PHYSICAL coordinates."""
    from pyiga import bspline
    if kind == 'spline':
        kv = bspline.make_knots(1, 0.0, 1.0, 1)
        rng = np.random.RandomState(7 + k)
        return bspline.BSplineFunc(dim * (kv,), 1.0 + rng.uniform(0, 1, dim * (2,)))
    return (lambda *x: 1.0 + 0.5 * x[0] - 0.25 * x[-1]) if k == 0 else (lambda *x: 2.0 - 0.5 * x[0] + 0.125 * x[-1])


_STR_SNIPPET = r'''
import sys
sys.path.insert(0, %(verif)r)
from vsim import env
env.setup_import()
from vsim import hsim_c03
from pyiga import assemble, bspline, hierarchical
dim = %(dim)d
kv = bspline.make_knots(2, 0.0, 1.0, 2)
kvs = dim * (kv,)
f = hsim_c03.str_field(%(fkind)r, dim)
geo = hsim_c03.make_geo('identity', dim)
expr = hsim_c03.STRFORMS[%(sname)r]
assemble.assemble(expr, kvs, f=f, geo=geo)                       # tensor-product route
hs = hierarchical.HSpace(kvs)
hs.refine({0: [dim * (0,)]})
assemble.assemble(expr, hs, f=f, geo=geo)                        # hierarchical route (on-demand assemblers)
'''


def precompile(dims=(1, 2)):
    """Compile every (form, dim, on_demand) variant used by the runs once, in
    parallel subprocesses, into this check's private cache."""
    t0 = time.time()
    jobs = []
    for dim in dims:
        for name in ALLFORMS:
            for od in (True, False):
                if not od and dim in (2, 3) and name in ('mass', 'stiffness', 'l2'):
                    continue    # shipped precompiled
                jobs.append((name, dim, od))
    verif = os.path.dirname(os.path.dirname(os.path.abspath(__file__)))
    for dim in dims:
        for sname in STRFORMS:
            for fk in ('spline', 'callable'):
                jobs.append(('str:%s:%s' % (sname, fk), dim, None))

    def one(job):
        name, dim, od = job
        if name.startswith('str:'):
            code = _STR_SNIPPET % dict(verif=verif, sname=name.split(':')[1], fkind=name.split(':')[2], dim=dim)
        else:
            code = _COMPILE_SNIPPET % dict(verif=verif, name=name, dim=dim, od=od)
        p = subprocess.run([sys.executable, '-c', code], stdout=subprocess.PIPE, stderr=subprocess.STDOUT,
                           env=dict(os.environ), timeout=900)
        return job, p.returncode, p.stdout.decode(errors='replace')[-1500:]
    failed = []
    with cf.ThreadPoolExecutor(max_workers=min(16, len(jobs))) as ex:
        for job, rc, out in ex.map(one, jobs):
            if rc != 0:
                failed.append((job, rc, out))
    if failed:
        raise RuntimeError('precompile failed: %r' % (failed[:2],))
    return {'precompiled_forms': ['%s/%dD/on_demand=%s' % j for j in jobs], 'precompile_wall_s': round(time.time() - t0, 1)}


class State:
    def __init__(self, w):
        self.w = w
        self.hd = {}
        self._trunc_of = {}      # id(HDiscretization) -> truncate flag of the space when it was created
        self.geo_kind = None
        self.ncheck = 0

    def check(self, step):
        w = self.w
        ctx, hs, m, cfg = w.ctx, w.hs, w.model, w.cfg
        from pyiga import assemble, hierarchical
        dim = cfg['dim']
        L = hs.numlevels
        if m.L != L:
            ctx.count('skipped.level-count-differs')
            return True
        q = ctx.ch.stream('data')
        if self.geo_kind is None:
            self.geo_kind = q.weighted([('identity', 3), ('scaled', 2), ('shifted', 1), ('curved', 3), ('micro', 2)])
            ctx.count('geo.' + self.geo_kind)
        geo = make_geo(self.geo_kind, dim)
        pmin = min(cfg['degs'])

        curved = self.geo_kind == 'curved'

        def f(*x):
            # polynomial of degree <= 1 per direction (so <= p+1 for every p >= 1);
            # on the curved geometry (level-wise quadrature oracle) a non-polynomial one
            if curved:
                return 1.0 + np.sin(2.0 * x[0]) + 0.5 * np.cos(x[-1])
            return 1.0 + 0.5 * x[0] - 0.25 * x[-1]
        args = {'geo': geo, 'f': f}
        if q.chance(20):
            return self.check_string(step, geo, curved)
        name = ALLFORMS[q.choice(len(ALLFORMS))]
        ctx.count('assemble.' + name)
        sig = dict(what='assemble', form=name)
        IM = m.represent_fine_hb()
        T = hs.thb_to_hb()
        kv_f = hs.knotvectors(L - 1)
        self.ncheck += 1
        if name in ('l2', 'l2dx'):
            b_f = assemble.assemble(make_form(name, dim), kv_f, geo=geo, f=f).ravel()
            via = q.weighted([('hdiscr', 3), ('assemble', 1)])
            if via == 'hdiscr':
                # ONE HDiscretization object serves every functional along the history
                # -- the SAME object that assembles the mass matrix, so that matrix -> refine -> rhs sequences
                # (and the reverse) occur on one long-lived HDiscretization
                hd = self.hd.get('mass')
                if hd is None:
                    hd = self.hd['mass'] = hierarchical.HDiscretization(hs, make_form('mass', dim), dict(args))
                    self._trunc_of[id(hd)] = bool(hs.truncate)
                else:
                    ctx.count('probe.hdiscretization.reused.for.functional')
                which = q.pick(['assemble_rhs', 'assemble_functional']) if name == 'l2' else q.pick(['assemble_rhs(vf)', 'assemble_functional'])
                if which == 'assemble_rhs':
                    b = ctx.call('HDiscretization.assemble_rhs', hd.assemble_rhs)
                elif which == 'assemble_rhs(vf)':
                    b = ctx.call('HDiscretization.assemble_rhs', hd.assemble_rhs, make_form(name, dim))
                else:
                    b = ctx.call('HDiscretization.assemble_functional', hd.assemble_functional, make_form(name, dim))
                trunc = self._trunc_of[id(hd)]
            else:
                b = ctx.call('assemble(functional, hspace)', assemble.assemble, make_form(name, dim), hs, **dict(args))
                trunc = bool(hs.truncate)
            if b is RAISED():
                return False
            want = IM.T @ b_f
            if curved:
                want = levelwise_reference_vec(m, [assemble.assemble(make_form(name, dim), hs.knotvectors(k), geo=geo, f=f).ravel()
                                                   for k in range(L)])
                ctx.count('oracle.levelwise-quadrature')
            b = np.asarray(b, float).ravel()
            want_hb = want
            if trunc:
                want = T.T @ want
            if via == 'hdiscr' and bool(hs.truncate) != trunc and b.shape == want.shape:
                # the truncate flag of the space was flipped after this HDiscretization was created: it is not
                # documented whether the object follows the flag or keeps the basis it was created for -- accept both
                alt = (T.T @ want_hb) if hs.truncate else want_hb
                if np.abs(b - alt).max() < np.abs(b - want).max():
                    want, trunc = alt, bool(hs.truncate)
                    ctx.count('hdiscr.follows-current-truncate-flag')
            sc = max(1e-300, np.abs(want).max())
            ctx.check(b.shape == want.shape and np.abs(b - want).max() <= 1e-10 * sc, 'functional-galerkin',
                      lambda: '%s via %s, truncate=%s, %d levels, geo %s: differs from the reference by %.3g (scale %.3g), history %s'
                      % (name, via, trunc, L, self.geo_kind, np.abs(b - want).max() if b.shape == want.shape else -1, sc, w.history),
                      dict(sig, truncate=trunc))
            return True
        symmetric_form = name in ('mass', 'stiffness')
        A_f = assemble.assemble(make_form(name, dim), kv_f, geo=geo)
        via = q.weighted([('hdiscr', 2), ('assemble', 1)])
        symflag = bool(q.choice(2)) if symmetric_form else False
        if via == 'hdiscr':
            hd = self.hd.get(name)
            if hd is None:
                hd = self.hd[name] = hierarchical.HDiscretization(hs, make_form(name, dim), dict(args))
                self._trunc_of[id(hd)] = bool(hs.truncate)
            else:
                ctx.count('probe.hdiscretization.reused')
            flag_before = getattr(hd, 'truncate', None)
            A = ctx.call('HDiscretization.assemble_matrix', hd.assemble_matrix, symmetric=symflag)
            trunc = self._trunc_of[id(hd)]
            if A is not RAISED():
                ctx.check(getattr(hd, 'truncate', None) == flag_before, 'hdiscr-truncate-flag-not-restored',
                          'HDiscretization.truncate is %r after assemble_matrix, was %r before the call' % (getattr(hd, 'truncate', None), flag_before), sig)
        else:
            A = ctx.call('assemble(form, hspace)', assemble.assemble, make_form(name, dim), hs,
                         symmetric=symflag, **dict(args))
            trunc = bool(hs.truncate)
        if A is RAISED():
            return False
        want = (IM.T @ A_f @ IM)
        if curved:
            want = sp.csr_matrix(levelwise_reference(m, [assemble.assemble(make_form(name, dim), hs.knotvectors(k), geo=geo)
                                                         for k in range(L)]))
            ctx.count('oracle.levelwise-quadrature')
        want_hb = want
        if trunc:
            want = T.T @ want @ T
        if via == 'hdiscr' and bool(hs.truncate) != trunc and A.shape == want.shape:
            alt = (T.T @ want_hb @ T) if hs.truncate else want_hb       # see the functional case above
            if maxabs(A - alt) < maxabs(A - want):
                want, trunc = alt, bool(hs.truncate)
                ctx.count('hdiscr.follows-current-truncate-flag')
        sc = max(1e-300, maxabs(want))
        ok = (A.shape == want.shape)
        err = maxabs(A - want) if ok else -1
        ctx.check(ok and err <= 1e-10 * sc, 'matrix-galerkin',
                  lambda: '%s via %s, symmetric=%s, truncate=%s, %d levels, disparity %s, geo %s: differs from the reference (I^T A_fine I, or the level-wise quadrature rule on curved geometry) by %.3g '
                  '(scale %.3g), history %s' % (name, via, symflag, trunc, L, cfg['disparity'], self.geo_kind, err, sc, w.history),
                  dict(sig, truncate=trunc, symmetric=symflag))
        if symmetric_form:
            ctx.count('assemble.symmetric.%s' % symflag)
        return True

    def check_string(self, step, geo, curved):
        """Problems given as STRINGS through assemble(str, hspace, ...): the same expression is assembled repeatedly
        along the history with the name f bound alternately to a spline of the parameters and to a plain function of
        the physical coordinates (anything remembered between calls must not mix them up)."""
        w = self.w
        ctx, hs, m, cfg = w.ctx, w.hs, w.model, w.cfg
        from pyiga import assemble
        dim = cfg['dim']
        L = hs.numlevels
        q = ctx.ch.stream('data')
        sname = q.pick(sorted(STRFORMS))
        fkind = q.pick(['spline', 'callable'])
        k = q.choice(2)
        f = str_field(fkind, dim, k)
        expr = STRFORMS[sname]
        symflag = bool(q.choice(2)) if sname == 'strmass' else False
        ctx.count('assemble.%s.%s' % (sname, fkind))
        ctx.log(['assemble-string', expr, fkind, k, symflag])
        sig = dict(what='assemble', form=sname)
        IM = m.represent_fine_hb()
        T = hs.thb_to_hb()
        trunc = bool(hs.truncate)
        kw = dict(symmetric=symflag) if sname == 'strmass' else {}
        A = ctx.call('assemble(string, hspace)', assemble.assemble, expr, hs, f=f, geo=geo, **kw)
        if A is RAISED():
            return False

        def tp(kvs):
            return assemble.assemble(expr, kvs, f=str_field(fkind, dim, k), geo=geo)
        if sname == 'strl2':
            if curved:
                want = levelwise_reference_vec(m, [np.asarray(tp(hs.knotvectors(kk))).ravel() for kk in range(L)])
            else:
                want = IM.T @ np.asarray(tp(hs.knotvectors(L - 1))).ravel()
            if trunc:
                want = T.T @ want
            b = np.asarray(A, float).ravel()
            sc = max(1e-300, np.abs(want).max())
            ctx.check(b.shape == want.shape and np.abs(b - want).max() <= 1e-10 * sc, 'functional-galerkin',
                      lambda: 'string problem %r with f a %s, truncate=%s, %d levels, geo %s: differs from the reference by %.3g '
                      '(scale %.3g), history %s' % (expr, fkind, trunc, L, self.geo_kind,
                                                    np.abs(b - want).max() if b.shape == want.shape else -1, sc, w.history),
                      dict(sig, truncate=trunc))
            return True
        if curved:
            want = sp.csr_matrix(levelwise_reference(m, [tp(hs.knotvectors(kk)) for kk in range(L)]))
        else:
            want = IM.T @ tp(hs.knotvectors(L - 1)) @ IM
        if trunc:
            want = T.T @ want @ T
        sc = max(1e-300, maxabs(want))
        ok = (A.shape == want.shape)
        err = maxabs(A - want) if ok else -1
        ctx.check(ok and err <= 1e-10 * sc, 'matrix-galerkin',
                  lambda: 'string problem %r with f a %s, symmetric=%s, truncate=%s, %d levels, geo %s: differs from the reference by '
                  '%.3g (scale %.3g), history %s' % (expr, fkind, symflag, trunc, L, self.geo_kind, err, sc, w.history),
                  dict(sig, truncate=trunc, symmetric=symflag))
        return True

