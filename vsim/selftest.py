"""Determinism self-test: every seed is one exactly repeatable execution.

For each engine the same run indices are executed (a) in a pool of 3 worker
processes, (b) in a pool of 7 worker processes with another batching, (c) in a
fresh interpreter started with a different PYTHONHASHSEED and with ASLR left on;
the trace digests (operation/schedule/fault trace, verdict and final model
state of every run) must be identical.  Exit 0 = identical, 1 = divergence.
"""
import json
import os
import subprocess
import sys
import time

from . import core, env, runner, pool

DEFAULT_N = {'C14': 40, 'C04': 40, 'C05': 30, 'C03': 20, 'C11': 30, 'C20': 60, 'C13': 24, 'C08': 30}


def _digests_job(arg):
    prop, seed, idxs = arg
    out = []
    known = core.load_known(runner.KNOWN_PATH)
    for r in idxs:
        ch = core.Choices(core.H(seed, prop, r))
        res = runner.execute(prop, ch, 'quick', known)
        out.append((r, res['digest'], (res['violation'] or {}).get('invariant')))
    return out


def digests(prop, seed, n, workers, batch):
    import importlib
    eng = importlib.import_module(runner.ENGINES[prop])
    if hasattr(eng, 'preimport'):
        eng.preimport()
    idx = list(range(n))
    jobs = [(prop, seed, idx[i:i + batch]) for i in range(0, n, batch)]
    got = {}
    for (_, st, payload) in pool.run_jobs(_digests_job, jobs, workers, job_timeout=1200):
        if st != 'ok':
            raise RuntimeError('selftest worker: %s %r' % (st, payload))
        for r, d, inv in payload:
            got[r] = (d, inv)
    return [got[r] for r in idx]


def main(argv):
    quick = '--quick' in argv
    props = [a for a in argv if a in runner.ENGINES] or sorted(runner.ENGINES)
    if argv and argv[0] == '_digests':
        # child mode: print digests as JSON
        prop, seed, n = argv[1], int(argv[2]), int(argv[3])
        _prepare(prop)
        print('DIGESTS ' + json.dumps(digests(prop, seed, n, 2, 5)))
        return 0
    seed = int(os.environ.get('VERIF_SEED') or 424242)
    rc = 0
    env.ensure_built()
    for prop in props:
        t0 = time.time()
        n = DEFAULT_N[prop] // (3 if quick else 1) or 4
        _prepare(prop)
        a = digests(prop, seed, n, 3, 4)
        b = digests(prop, seed, n, 7, 3)
        e = dict(os.environ)
        e['PYTHONHASHSEED'] = '31337'
        e['VSIM_REEXEC'] = '1'          # do not re-exec under setarch: ASLR stays on
        p = subprocess.run([sys.executable, os.path.join(runner.VERIF, 'check'), 'selftest', '_digests', prop, str(seed), str(n)],
                           env=e, stdout=subprocess.PIPE, stderr=subprocess.DEVNULL, timeout=3000)
        c = None
        for ln in p.stdout.decode(errors='replace').splitlines():
            if ln.startswith('DIGESTS '):
                c = [tuple(x) for x in json.loads(ln[8:])]
        ok = (a == b) and (c is not None) and (a == c)
        nviol = sum(1 for d, inv in a if inv)
        print('selftest %s: %d seeds x 3 executions (3 workers / 7 workers / fresh interpreter, PYTHONHASHSEED=31337, ASLR on): %s '
              '(%d runs end in a violation verdict) [%.1fs]' % (prop, n, 'IDENTICAL' if ok else 'DIVERGED', nviol, time.time() - t0))
        if not ok:
            rc = 1
            for r in range(n):
                row = (a[r], b[r], c[r] if c else None)
                if len(set(map(str, row))) > 1:
                    print('  run %d: %s' % (r, row))
                    break
        sys.stdout.flush()
    return rc


def _prepare(prop):
    import importlib
    eng = importlib.import_module(runner.ENGINES[prop])
    if prop == 'C03':
        from . import hsim_c03
        hsim_c03.precompile()
    if prop == 'C08':
        eng.precompile()
