"""asmsim -- C08: assembly is independent of symmetry flag, format, layout,
subset, update history, thread count and chunking.

Seams (existing module-level names, no repo hook):
  pyiga.assemble_tools_cy.ThreadPoolExecutor -> SimExecutor: the executor behind
      multi_entries / multi_blocks.  Each chunk task (a GIL-free C call, atomic
      for the simulator) is run on one of w real worker threads under the
      simulator's seeded order and worker assignment, one at a time; a rare
      fault makes a task raise before running.
  pyiga.assemble_tools_cy.chunk_tasks -> seeded chunk boundaries in a minority
      of runs (same boundaries for the index array and the output array).
  pyiga.set_max_threads(n) -> thread count / number of chunks, also the
      num_threads of the OpenMP prange in generic_assemble_core_vec_*.

A run = one assembler kind on one seeded space + a history of operations on
ONE long-lived assembler object (assemble in all symmetric/format/layout
combinations, multi_entries/multi_blocks on arbitrary subsets, single entries,
update(), update_params(), Assembler.assemble(**fields), on-demand instances
with bounding boxes, thread-count changes), checked against a fresh
single-threaded entry-by-entry reference for the model's current inputs.
"""
import concurrent.futures as cf
import itertools
import os
import subprocess
import sys
import threading
import time

import numpy as np
import scipy.sparse as sp

from . import env

env.setup_import()

RULE = {'C08': 'a run = seeded assembler kind (shipped mass/stiffness/divdiv/L2 functional in 2D/3D; compiled 1D mass, '
        'nonsymmetric convection with a parameter, updatable-field form, 2x1-component form, two-space Petrov-Galerkin form, '
        'boundary form, updatable functional; on-demand variants) on a seeded tensor-product space (mixed degrees, '
        'non-uniform / repeated knots, identity/scaled/curved geometry) + a history of 3-12 operations on one assembler '
        'object under a seeded executor schedule (task order, worker assignment, 1-16 workers, thread counts 1..17, '
        'buggified chunk boundaries, injected task failures).  non-trivial = at least one pooled call ran >= 2 chunks in '
        'a non-identity order or on >= 2 different workers, or an update()/update_params() preceded a comparison; '
        'distinct = digest of (kind, space, history, schedule)'}
REAL_VS_STUB = {'C08': {
    'real': ['assembler classes (shipped and compiled with the real tool-chain), assemble_entries / assemble_entries_vec, '
             'MLStructure / MLMatrix, multi_entries / multi_blocks chunk kernels, generic_assemble_core_vec_* (OpenMP prange), '
             'generated update()/update_params(), Assembler wrapper, real worker threads'],
    'stub': ['ThreadPoolExecutor replaced by SimExecutor (decides task order and worker assignment, one task at a time); '
             'chunk_tasks replaced by a seeded chunker in a minority of runs'],
    'model': ['fresh assembler for the current inputs evaluated entry by entry on the calling thread with max_threads=1']}}
ASSUMPTIONS = {'C08': ['OpenMP prange interleavings cannot be owned by the simulator (C code without the GIL): only the '
                       'thread count is varied there, against the exact sequential oracle; such a report would be labelled '
                       'nonreplayable-openmp',
                       'a chunk task is atomic for the simulator; truly simultaneous execution of chunk tasks is exercised '
                       'only in the separately counted "parallel" family (real concurrent threads, not replayable)',
                       'spaces up to ~400 dofs']}
SHRINK_ORDER = ['ops', 'sched', 'cfg', 'data']

KINDS = ['mass2d', 'stiff2d', 'mass3d', 'stiff3d', 'divdiv2d', 'l2f2d',
         'mass1d', 'conv2d', 'field2d', 'vec21', 'pg2d', 'bdry2d', 'fun2d', 'vec22p',
         'fieldgrad2d', 'vfun2d', 'divdiv3d', 'fieldvec2d', 'vec1d', 'th2d', 'matpar2d', 'matparvec2d']
COMPILED = ['mass1d', 'conv2d', 'field2d', 'vec21', 'pg2d', 'bdry2d', 'fun2d', 'vec22p', 'fieldgrad2d', 'vfun2d',
            'fieldvec2d', 'vec1d', 'th2d', 'matpar2d', 'matparvec2d']
ONDEMAND = ['conv2d', 'field2d', 'mass2d']


def preimport():
    import pyiga.assemble, pyiga.compile, pyiga.geometry, pyiga.vform, pyiga.assemblers  # noqa


def RAISED():
    from .runner import RAISED as R
    return R


def make_form(kind):
    from pyiga import vform
    from pyiga.vform import VForm, grad, inner, div, dx, ds
    if kind == 'mass1d':
        return vform.mass_vf(1)
    if kind == 'mass2d':
        return vform.mass_vf(2)
    if kind in ('stiff2d', 'stiff3d'):
        return vform.stiffness_vf(int(kind[-2]))
    if kind == 'mass3d':
        return vform.mass_vf(3)
    if kind in ('divdiv2d', 'divdiv3d'):
        return vform.divdiv_vf(int(kind[-2]))
    if kind == 'l2f2d':
        return vform.L2functional_vf(2)
    if kind == 'conv2d':
        V = VForm(2)
        u, v = V.basisfuns()
        a = V.parameter('a')
        V.add((a * u.dx(0) * v + u * v) * dx)
        return V
    if kind == 'field2d':
        V = VForm(2)
        u, v = V.basisfuns()
        f = V.input('f', updatable=True)
        V.add((f * u * v + 0.5 * inner(grad(u), grad(v))) * dx)
        return V
    if kind == 'fieldgrad2d':
        # one updatable field used through its value AND its gradient (two array variables)
        V = VForm(2)
        u, v = V.basisfuns()
        f = V.input('f', updatable=True)
        V.add((f * u * v + inner(grad(f), grad(u)) * v) * dx)
        return V
    if kind == 'fieldvec2d':
        # updatable field in a vector-valued form
        V = VForm(2)
        u, v = V.basisfuns(components=(2, 2))
        f = V.input('f', updatable=True)
        V.add((f * inner(u, v) + div(u) * div(v)) * dx)
        return V
    if kind == 'vfun2d':
        V = VForm(2, arity=1)
        v = V.basisfuns(components=(2,))
        f = V.input('f', updatable=True)
        V.add(f * (v[0] + 2.0 * v[1]) * dx)
        return V
    if kind == 'th2d':
        # Taylor-Hood style: vector-valued trial function in space 0, scalar test function in a DIFFERENT space 1
        V = VForm(2)
        u, q = V.basisfuns(components=(2, 1), spaces=(0, 1))
        V.add((div(u) * q + 0.25 * u[1] * q.dx(0)) * dx)
        return V
    if kind == 'vec1d':
        # 1D vector-valued form (generic_assemble_core_vec_1d), symmetric
        V = VForm(1)
        u, v = V.basisfuns(components=(2, 2))
        V.add((inner(u, v) + u[0].dx(0) * v[0].dx(0) + 0.5 * (u[0] * v[1] + u[1] * v[0])) * dx)
        return V
    if kind == 'vec21':
        V = VForm(2)
        u, v = V.basisfuns(components=(2, 1))
        V.add(div(u) * v * dx)
        return V
    if kind == 'vec22p':
        V = VForm(2)
        u, v = V.basisfuns(components=(2, 2))
        b = V.parameter('b', shape=(2,))
        V.add((inner(u, v) + inner(b, u) * inner(b, v)) * dx)
        return V
    if kind == 'matpar2d':
        # scalar form with a (non-symmetric) matrix-valued parameter
        from pyiga.vform import dot
        V = VForm(2)
        u, v = V.basisfuns()
        Q = V.parameter('Q', shape=(2, 2))
        V.add((inner(dot(Q, grad(u)), grad(v)) + u * v) * dx)
        return V
    if kind == 'matparvec2d':
        # vector-valued form (2 trial components, 3 test components) with a NON-SQUARE matrix-valued parameter
        from pyiga.vform import dot
        V = VForm(2)
        u, v = V.basisfuns(components=(2, 3))
        Bm = V.parameter('Bm', shape=(3, 2))
        V.add(inner(dot(Bm, u), v) * dx)
        return V
    if kind == 'pg2d':
        V = VForm(2)
        u, v = V.basisfuns(spaces=(0, 1))
        V.add((u * v + u.dx(1) * v) * dx)
        return V
    if kind == 'bdry2d':
        V = VForm(2, boundary=True)
        u, v = V.basisfuns()
        V.add(u * v * ds)
        return V
    if kind == 'fun2d':
        V = VForm(2, arity=1)
        v = V.basisfuns()
        f = V.input('f', updatable=True)
        V.add(f * v * dx)
        return V
    raise AssertionError(kind)


_SNIP = r'''
import sys
sys.path.insert(0, %(verif)r)
from vsim import env
env.setup_import()
from vsim import asmsim
from pyiga import compile
compile.compile_vform(asmsim.make_form(%(kind)r), on_demand=%(od)r)
'''


def precompile():
    t0 = time.time()
    jobs = [(k, False) for k in COMPILED] + [(k, True) for k in ONDEMAND]
    verif = os.path.dirname(os.path.dirname(os.path.abspath(__file__)))

    def one(job):
        kind, od = job
        p = subprocess.run([sys.executable, '-c', _SNIP % dict(verif=verif, kind=kind, od=od)],
                           stdout=subprocess.PIPE, stderr=subprocess.STDOUT, env=dict(os.environ), timeout=900)
        return job, p.returncode, p.stdout.decode(errors='replace')[-1500:]
    bad = []
    with cf.ThreadPoolExecutor(max_workers=min(12, len(jobs))) as ex:
        for job, rc, out in ex.map(one, jobs):
            if rc != 0:
                bad.append((job, rc, out))
    if bad:
        raise RuntimeError('precompile failed: %r' % (bad[:2],))
    return {'precompiled': ['%s/on_demand=%s' % j for j in jobs], 'precompile_wall_s': round(time.time() - t0, 1)}


# ----------------------------------------------------------------------------
# the executor seam

class TaskFailure(Exception):
    pass


class SimExecutor:
    """Stands in for concurrent.futures.ThreadPoolExecutor inside pyiga."""
    current = None      # per-run controller installed by run_case

    def __init__(self, max_workers=None, *a, **kw):
        self.max_workers = max_workers

    @property
    def _max_workers(self):
        # pyiga creates its pool ONCE per process, sized by get_max_threads() at the first pooled call.
        # One simulated run = one process: the pool size is the thread count at the run's first pooled call
        # (not whatever an earlier run in this worker process happened to use), so a run stays a pure function
        # of its recorded choices.
        ctl = SimExecutor.current
        return ctl.pool_size if ctl is not None and ctl.pool_size else self.max_workers

    def map(self, fn, *iterables):
        ctl = SimExecutor.current
        ctl.note_pool_use()
        tasks = list(zip(*iterables))
        return ctl.run_tasks(fn, tasks)

    def submit(self, fn, *a, **kw):
        ctl = SimExecutor.current
        if ctl is not None:
            ctl.note_pool_use()
            ctl.ctx.count('pool.submit.calls')
        f = cf.Future()
        try:
            if ctl is not None and ctl.fail_next and ctl.mode != 'parallel':
                ctl.fail_next = False
                ctl.fault_fired = True
                ctl.ctx.count('fault.task-failure.fired')
                raise TaskFailure('injected: worker task failed before running its chunk')
            if ctl is None or ctl.mode == 'parallel':
                f.set_result(fn(*a, **kw))
            else:
                # executed at once (code that submits and then waits with concurrent.futures.wait must not block),
                # but on a real worker thread chosen by the schedule
                wk = ctl.sched.choice(ctl.nworkers)
                ctl.schedule.append(['submit', wk])
                if wk:
                    ctl.nontrivial = True
                box = {}

                def body():
                    try:
                        box['r'] = fn(*a, **kw)
                    except BaseException as e:    # noqa
                        box['e'] = e
                t = threading.Thread(target=body, name='simworker-%d' % wk)
                t.start()
                t.join()
                if 'e' in box:
                    raise box['e']
                f.set_result(box.get('r'))
        except BaseException as e:     # noqa
            f.set_exception(e)
        return f

    def shutdown(self, *a, **kw):
        pass


class Controller:
    def __init__(self, ctx, mode, nworkers):
        self.ctx = ctx
        self.mode = mode            # 'sim' | 'parallel'
        self.nworkers = nworkers
        self.sched = ctx.ch.stream('sched')
        self.fail_next = False
        self.nontrivial = False
        self.calls = 0
        self.schedule = []
        self.pool_size = None
        self.fault_fired = False

    def note_pool_use(self):
        if self.pool_size is None:
            import pyiga
            self.pool_size = pyiga.get_max_threads()

    def run_tasks(self, fn, tasks):
        ctx = self.ctx
        n = len(tasks)
        self.calls += 1
        ctx.count('pool.calls')
        ctx.count('pool.tasks', n)
        results = [None] * n
        errors = [None] * n
        if self.mode == 'parallel':
            # truly concurrent (not replayable): all tasks released at once on real threads
            barrier = threading.Barrier(n) if n > 1 else None

            def body(k):
                try:
                    if barrier:
                        barrier.wait(timeout=60)
                    results[k] = fn(*tasks[k])
                except BaseException as e:    # noqa
                    errors[k] = e
            ths = [threading.Thread(target=body, args=(k,)) for k in range(n)]
            for t in ths:
                t.start()
            for t in ths:
                t.join()
            ctx.count('pool.parallel.calls')
        else:
            order = self.sched.shuffle(range(n))
            workers = [self.sched.choice(self.nworkers) for _ in range(n)]
            if n > 1 and (order != list(range(n)) or len(set(workers)) > 1):
                self.nontrivial = True
            self.schedule.append([order, workers])
            fail_at = None
            if self.fail_next and n > 0:
                fail_at = order[self.sched.choice(n)]
                self.fail_next = False
            # one task at a time, each on the real worker thread the schedule names
            for k, wk in zip(order, workers):
                def body(k=k):
                    try:
                        if k == fail_at:
                            raise TaskFailure('injected: worker task failed before running its chunk')
                        results[k] = fn(*tasks[k])
                    except BaseException as e:    # noqa
                        errors[k] = e
                t = threading.Thread(target=body, name='simworker-%d' % wk)
                t.start()
                t.join()
            ctx.count('pool.sim.calls')
            if fail_at is not None:
                ctx.count('fault.task-failure.fired')
                self.fault_fired = True
        for e in errors:
            if e is not None:
                raise e
        return iter(results)


def make_chunker(ctx):
    s = ctx.ch.stream('chunks')
    state = {'cuts': None, 'len': None}

    def chunker(tasks, num_chunks):
        n = len(tasks)
        # the index array and the output array of one call are chunked consecutively
        # with the same (len, num_chunks): reuse the boundaries for the second one
        if state['len'] == (n, num_chunks) and state['cuts'] is not None:
            cuts = state['cuts']
            state['cuts'] = None
        else:
            k = min(max(1, num_chunks + s.choice(3) - 1), max(1, n))
            cuts = sorted(set(s.choice(n + 1) for _ in range(k - 1))) if n > 0 else []
            state['cuts'], state['len'] = cuts, (n, num_chunks)
        pos = 0
        for c in cuts + [n]:
            if c > pos:
                yield tasks[pos:c]
                pos = c
    return chunker


# ----------------------------------------------------------------------------
# spaces, geometries, inputs

def make_space(ctx, kind):
    from pyiga import bspline, geometry
    s = ctx.ch.stream('cfg')
    dim = 1 if kind.endswith('1d') else (3 if kind.endswith('3d') else 2)
    kk = s.weighted([('uniform', 5), ('nonuniform', 2), ('repeated', 2)])
    kvs, desc = [], []
    sibling = {}
    for d in range(dim):
        p = s.intrange(1, 3 if dim < 3 else 2)
        n = s.intrange(2, 5 if dim == 1 else (4 if dim == 2 else 2))
        br = np.linspace(0.0, 1.0, n + 1)
        if kk == 'nonuniform':
            br = br ** 1.7
        t = [0.0] * (p + 1) + list(br[1:-1]) + [1.0] * (p + 1)
        rep = None
        if kk == 'repeated' and p >= 2 and n >= 2:
            rep = 1 + s.choice(n - 1)           # WHICH interior breakpoint is doubled
            t.append(br[rep])
        kvs.append(bspline.KnotVector(np.array(sorted(t)), p))
        desc.append([p, n] if rep is None else [p, n, rep])
        if rep is not None and n >= 3:
            # a sibling knot vector: same degree, same numbers of dofs and spans, the doubled knot elsewhere
            rep2 = 1 + (rep % (n - 1))
            t2 = [0.0] * (p + 1) + list(br[1:-1]) + [br[rep2]] + [1.0] * (p + 1)
            sibling[d] = bspline.KnotVector(np.array(sorted(t2)), p)
    gk = s.weighted([('identity', 3), ('scaled', 2), ('curved', 2)])
    if dim == 1:
        geo = geometry.line_segment(0.0, 1.0) if gk != 'scaled' else geometry.line_segment(0.0, 2.5)
    elif dim == 2:
        geo = {'identity': geometry.unit_square, 'scaled': lambda: geometry.unit_square().scale((2.0, 0.5)),
               'curved': geometry.quarter_annulus}[gk]()
    else:
        geo = {'identity': geometry.unit_cube, 'scaled': lambda: geometry.unit_cube().scale((2.0, 0.5, 1.5)),
               'curved': geometry.twisted_box}[gk]()
    sib = tuple(sibling.get(d, kvs[d]) for d in range(dim)) if sibling else None
    return dim, tuple(kvs), geo, {'degs_ncells': desc, 'knots': kk, 'geo': gk}, sib


def fields(dim):
    from pyiga import bspline
    # parametric input fields (B-spline functions of the parameters)
    out = []
    kv = bspline.make_knots(2, 0.0, 1.0, 2)
    n = kv.numdofs
    for k in range(3):
        rng = np.random.RandomState(100 + k)
        out.append(bspline.BSplineFunc(dim * (kv,), 1.0 + rng.uniform(0, 1, dim * (n,))))
    return out


QS = [np.array([[2.0, 0.5], [-1.0, 3.0]]), np.array([[1.0, 2.0], [0.0, 1.0]]), np.array([[0.5, -0.25], [0.75, 1.5]])]
BMS = [np.array([[1.0, 2.0], [3.0, 4.0], [5.0, 6.0]]), np.array([[0.5, 0.0], [-1.0, 2.0], [0.25, -3.0]])]
NLAYOUTS = 6


def relayout(M, k):
    """the same VALUES in different memory layouts / container types (what a caller may legitimately pass)"""
    M = np.array(M, dtype=float)
    if k == 1:
        return np.asfortranarray(M)                 # column-major (e.g. the transpose of something)
    if k == 2:                                      # strided view into a larger array
        big = np.full(tuple(2 * n for n in M.shape), 99.0)
        view = big[tuple(slice(None, None, 2) for _ in M.shape)]
        view[...] = M
        return view
    if k == 3:
        return M.tolist()
    if k == 4:                                      # negative strides
        return np.flip(np.flip(M).copy())
    if k == 5 and M.ndim == 2:                      # transposed view of the transposed copy
        return M.T.copy().T
    return M.copy()


class Case:
    """builds assembler instances of one kind for given model inputs"""

    def __init__(self, ctx, kind):
        from pyiga import assemblers, compile as pc
        self.ctx, self.kind = ctx, kind
        self.dim, self.kvs, self.geo, self.desc, self.sibling_kvs = make_space(ctx, kind)
        s = ctx.ch.stream('cfg')
        shipped = {'mass2d': 'MassAssembler2D', 'stiff2d': 'StiffnessAssembler2D', 'mass3d': 'MassAssembler3D',
                   'stiff3d': 'StiffnessAssembler3D', 'divdiv2d': 'DivDivAssembler2D', 'l2f2d': 'L2FunctionalAssembler2D',
                   'divdiv3d': 'DivDivAssembler3D'}
        if kind in shipped:
            self.cls = getattr(assemblers, shipped[kind])
            self.cls_od = pc.compile_vform(make_form(kind), on_demand=True) if kind in ONDEMAND else None
        else:
            self.cls = pc.compile_vform(make_form(kind))
            self.cls_od = pc.compile_vform(make_form(kind), on_demand=True) if kind in ONDEMAND else None
        self.fields = fields(self.dim)
        # ONE field object whose coefficient array is overwritten in place between calls (a user who
        # keeps a single function object and updates its values)
        from pyiga import bspline as _bs
        self.mfield = _bs.BSplineFunc(self.fields[0].kvs, np.array(self.fields[0].coeffs, copy=True))
        self.state = {'f': 0, 'a': 1.5, 'b': (0.5, -1.0), 'Q': 0}
        self.kvs1 = None
        if kind in ('pg2d', 'th2d'):
            from pyiga import bspline
            self.kvs1 = tuple(bspline.KnotVector(np.concatenate(([kv.kv[0]], kv.kv, [kv.kv[-1]])), kv.p + 1) for kv in self.kvs)
            if s.choice(2):
                # the LARGER (degree-elevated) space as trial space, the smaller one as test space: fewer rows than columns
                self.kvs, self.kvs1 = self.kvs1, self.kvs
                self.desc['spaces_swapped'] = True
        self.boundary = None
        if kind == 'bdry2d':
            self.boundary = [(0, 0), (0, 1), (1, 0), (1, 1)][s.choice(4)]
        self.arity = 1 if kind in ('l2f2d', 'fun2d', 'vfun2d') else 2
        self.vector = kind in ('divdiv2d', 'vec21', 'vec22p', 'divdiv3d', 'fieldvec2d', 'vec1d', 'th2d', 'matparvec2d')
        self.symmetric_form = kind in ('mass1d', 'mass2d', 'mass3d', 'stiff2d', 'stiff3d', 'divdiv2d', 'field2d', 'bdry2d',
                                       'vec22p', 'divdiv3d', 'fieldvec2d', 'vec1d')
        self._ref = {}

    def args(self, st, lay=0):
        a = {'geo': self.geo}
        if self.kind == 'matpar2d':
            a['Q'] = relayout(QS[st['Q']], lay)
        if self.kind == 'matparvec2d':
            a['Bm'] = relayout(BMS[st['Q'] % len(BMS)], lay)
        if self.kind in ('field2d', 'fun2d', 'l2f2d', 'fieldgrad2d', 'vfun2d', 'fieldvec2d'):
            a['f'] = self.fields[st['f']]
        if self.kind == 'conv2d':
            a['a'] = st['a']
        if self.kind == 'vec22p':
            a['b'] = relayout(np.array(st['b']), lay)
        return a

    def instantiate(self, st, on_demand=False, bbox=None, lay=0):
        a = self.args(st, lay)
        cls = self.cls_od if on_demand else self.cls
        if on_demand:
            a['bbox'] = bbox
        if self.boundary is not None:
            a['boundary'] = self.boundary
            from pyiga import assemble
            a['Jac_to_boundary'] = assemble._Jac_to_boundary_matrix(self.boundary, self.dim)
        if self.kvs1 is not None:
            return cls(self.kvs, self.kvs1, **a)
        return cls(self.kvs, **a)

    def shape(self):
        # the index spaces of the assembler itself (for a boundary form: the spaces of the face)
        kvs0, kvs1 = self.instantiate(self.state).kvs
        n0 = int(np.prod([kv.numdofs for kv in kvs0]))
        n1 = int(np.prod([kv.numdofs for kv in kvs1]))
        return n1, n0       # rows: test space (S1), columns: trial space (S0)

    def reference(self, st):
        """dense reference for the inputs `st`: fresh object, calling thread, one thread"""
        import pyiga
        key = (st['f'], st['a'], tuple(st['b']), st['Q'])
        if key in self._ref:
            return self._ref[key]
        old = pyiga.get_max_threads()
        pyiga.set_max_threads(1)
        try:
            asm = self.instantiate(st)
            if self.arity == 1:
                R = np.array(asm.assemble_vector(), dtype=float)
            else:
                m, n = self.shape()
                IJ = np.array(list(itertools.product(range(m), range(n))), dtype=np.uintp)
                if self.vector:
                    nc0, nc1 = asm.num_components()             # (trial comps, test comps)
                    B = np.asarray(asm.multi_blocks(IJ))        # N x nc0*nc1 values, row-major (test comp, trial comp)
                    R = B.reshape(m, n, nc1, nc0)
                else:
                    R = np.asarray(asm.multi_entries(IJ)).reshape(m, n)
        finally:
            pyiga.set_max_threads(old)
        if self.arity == 2:
            # entries of basis functions with non-overlapping supports are EXACTLY zero (own computation
            # of the overlap pattern from the knot vectors of the assembler's spaces)
            kvs0, kvs1 = asm.kvs
            mask = np.ones((1, 1), dtype=bool)
            for k0, k1 in zip(kvs0, kvs1):
                a0, b0 = k0.kv[:k0.numdofs], k0.kv[k0.p + 1:k0.p + 1 + k0.numdofs]
                a1, b1 = k1.kv[:k1.numdofs], k1.kv[k1.p + 1:k1.p + 1 + k1.numdofs]
                ov = np.minimum(b1[:, None], b0[None, :]) > np.maximum(a1[:, None], a0[None, :])
                mask = np.kron(mask, ov)
            Rm = R if R.ndim == 2 else np.abs(R).max(axis=(2, 3))
            bad = (~mask) & (Rm != 0)
            self.ctx.check(not bad.any(), 'nonoverlapping-entry-nonzero',
                           lambda: '%s: %d entries of basis functions with disjoint supports are not exactly zero, e.g. %s = %r'
                           % (self.kind, int(bad.sum()), tuple(np.argwhere(bad)[0]), Rm[tuple(np.argwhere(bad)[0])]),
                           {'what': 'nonoverlap', 'kind': self.kind})
        self._ref[key] = R
        return R


def blocked_dense(R):
    """reference block array R[i, j, row, col] (test dof, trial dof, test component, trial component)
    -> dense matrices in the two documented layouts."""
    m, n, c1, c0 = R.shape
    packed = R.transpose(0, 2, 1, 3).reshape(m * c1, n * c0)
    blocked = R.transpose(2, 0, 3, 1).reshape(c1 * m, c0 * n)
    return packed, blocked


def todense(A):
    if sp.issparse(A):
        return A.toarray()
    if hasattr(A, 'asmatrix'):
        return A.asmatrix('csr').toarray()
    return np.asarray(A)


_REAL_CHUNKER = None


def run_case(ctx):
    import pyiga
    from pyiga import assemble, assemble_tools_cy as atc
    cfg = ctx.ch.stream('cfg')
    kind = KINDS[cfg.choice(len(KINDS))]
    if ctx.params.get('kind'):
        kind = ctx.params['kind']
    fam = cfg.weighted([('sim', 8), ('chunker', 2), ('taskfail', 1), ('parallel', 1)])
    nworkers = 1 + cfg.choice(16)
    ctl = Controller(ctx, 'parallel' if fam == 'parallel' else 'sim', nworkers)
    SimExecutor.current = ctl
    # the seams are existing module-level names of the tree under test; a refactoring may remove one of them:
    # then that part of the simulation is switched off (counted), the oracles stay on
    if hasattr(atc, 'ThreadPoolExecutor'):
        atc.ThreadPoolExecutor = SimExecutor
    else:
        ctx.count('seam.missing.ThreadPoolExecutor')
    global _REAL_CHUNKER
    has_chunker = hasattr(atc, 'chunk_tasks')
    if has_chunker:
        if _REAL_CHUNKER is None:
            _REAL_CHUNKER = atc.chunk_tasks
        real_chunker = _REAL_CHUNKER
        atc.chunk_tasks = make_chunker(ctx) if fam == 'chunker' else real_chunker
    else:
        ctx.count('seam.missing.chunk_tasks')
    old_threads = pyiga.get_max_threads()
    try:
        _run(ctx, kind, fam, ctl)
    finally:
        pyiga.set_max_threads(old_threads)
        if has_chunker:
            atc.chunk_tasks = real_chunker


def _run(ctx, kind, fam, ctl):
    import pyiga
    from pyiga import assemble
    case = Case(ctx, kind)
    ctx.count('kind.' + kind)
    ctx.count('family.' + fam)
    ctx.log({'kind': kind, 'family': fam, 'workers': ctl.nworkers, 'space': case.desc})
    o = ctx.ch.stream('ops')
    data = ctx.ch.stream('data')
    st = dict(case.state)
    nthreads = [1, 2, 3, 5, 7, 16, 0][o.choice(7)] or (1 + o.choice(17))
    pyiga.set_max_threads(nthreads)
    if case.sibling_kvs is not None and case.kvs1 is None and case.boundary is None and o.choice(2):
        # the SAME process first assembles on a sibling space (same degrees, numbers of dofs and spans; the doubled
        # knot elsewhere): anything the library remembers between calls must not be keyed on less than the knots
        ctx.log(['sibling-space-first'])
        ctx.count('op.sibling-space-first')
        main_kvs = case.kvs
        try:
            case.kvs = case.sibling_kvs
            sasm = case.instantiate(st)
            if case.arity == 2:
                sA = ctx.call('assemble_entries(sibling)', assemble.assemble_entries, sasm)
                if sA is RAISED():
                    return
        finally:
            case.kvs = main_kvs
    lay0 = o.choice(NLAYOUTS) if kind in ('matpar2d', 'matparvec2d', 'vec22p') else 0
    if lay0:
        ctx.log(['parameter-layout', lay0])
    asm = case.instantiate(st, lay=lay0)
    m, n = case.shape()
    updated = False
    wrapper = [None]
    ondemand = {}
    handed_out = []     # (returned object, dense copy at the time it was returned, description)

    def remember(obj, desc):
        # results handed out earlier must not be altered by later calls on the same assembler object
        if sp.issparse(obj) or isinstance(obj, np.ndarray):
            handed_out.append((obj, np.array(todense(obj), copy=True), desc))
            del handed_out[:-3]

    def check_handed_out():
        for obj, snap, desc in handed_out:
            now = todense(obj)
            ok = now.shape == snap.shape and np.array_equal(now, snap)
            ctx.check(ok, 'earlier-result-altered', lambda: '%s: a matrix/vector returned earlier (%s) was changed by a later call on the '
                      'same assembler object (max change %.3g)' % (kind, desc, np.abs(now - snap).max() if now.shape == snap.shape and now.size else -1),
                      sig('aliasing'))
    sig = lambda what, **kw: dict(what=what, kind=kind, **kw)     # noqa
    nops = 3 + o.choice(10)
    tolrel = 1e-13

    def cmp_exact(got, want, what, detail, **kw):
        got, want = np.asarray(got, float), np.asarray(want, float)
        ok = got.shape == want.shape and np.array_equal(got, want)
        ctx.check(ok, what, lambda: '%s: %s (max diff %.3g; threads %d, family %s, history %s)' % (
            kind, detail, (np.abs(got - want).max() if got.shape == want.shape and got.size else -1), pyiga.get_max_threads(), fam,
            ctx.trace[1:]), sig(what, **kw))
        return ok

    def one_thread(fn, *a, **kw):
        """the same call with max_threads = 1 (thread count, chunking and worker order are then out of the picture):
        the property demands BITWISE equality with it; everything else only to rounding accuracy"""
        cur = pyiga.get_max_threads()
        if cur <= 1:
            return None
        pyiga.set_max_threads(1)
        try:
            return fn(*a, **kw)
        finally:
            pyiga.set_max_threads(cur)

    def cmp_threads(got, got1, what_detail, **kw):
        if got1 is None:
            return True
        ctx.count('thread-invariance.compared')
        return cmp_exact(todense(got) if (sp.issparse(got) or hasattr(got, 'asmatrix')) else np.asarray(got),
                         todense(got1) if (sp.issparse(got1) or hasattr(got1, 'asmatrix')) else np.asarray(got1),
                         'thread-count-changes-result', what_detail + ': result with %d threads is not bitwise equal to the result '
                         'with 1 thread' % pyiga.get_max_threads(), **kw)

    def cmp_close(got, want, what, detail, **kw):
        got, want = np.asarray(got, float), np.asarray(want, float)
        sc = max(1e-300, np.abs(want).max() if want.size else 1.0)
        ok = got.shape == want.shape and (np.abs(got - want).max() if got.size else 0.0) <= tolrel * sc
        ctx.check(ok, what, lambda: '%s: %s (max diff %.3g, scale %.3g; threads %d, history %s)' % (
            kind, detail, (np.abs(got - want).max() if got.shape == want.shape and got.size else -1), sc,
            pyiga.get_max_threads(), ctx.trace[1:]), sig(what, **kw))
        return ok

    for step in range(nops):
        ops = [('assemble', 6), ('threads', 2)]
        ops += [('highlevel', 2)]
        if case.arity == 2:
            ops += [('subset', 4), ('entry', 1)]
            if not case.vector:
                ops += [('rows', 2)]
        if kind in ('field2d', 'fun2d', 'fieldgrad2d', 'vfun2d', 'fieldvec2d'):
            ops += [('update', 3), ('wrapper', 2)]
        if kind in ('conv2d', 'vec22p', 'matpar2d', 'matparvec2d'):
            ops += [('update_params', 3)]
        if kind in ONDEMAND:
            ops += [('ondemand', 2)]
        if fam == 'taskfail' and case.arity == 2:
            ops += [('taskfail', 3)]
        op = o.weighted(ops)
        R = case.reference(st)
        if op == 'threads':
            nthreads = [1, 2, 3, 5, 7, 16, max(1, m), m + 1, 4 * m, 0, 0, 0][o.choice(12)] or (1 + o.choice(17))
            pyiga.set_max_threads(nthreads)
            ctx.log(['set_max_threads', nthreads])
            ctx.count('op.set_max_threads')
            continue
        if op == 'update':
            st['f'] = (st['f'] + 1 + o.choice(2)) % 3
            inplace = bool(o.choice(3) == 0)
            ctx.log(['update', 'f%d' % st['f'], 'same-object-mutated' if inplace else 'new-object'])
            fobj = case.fields[st['f']]
            if inplace:
                case.mfield.coeffs[...] = case.fields[st['f']].coeffs
                fobj = case.mfield
                ctx.count('op.update.inplace')
            r = ctx.call('update', asm.update, f=fobj)
            if r is RAISED():
                return
            updated = True
            ctx.count('op.update')
            continue
        if op == 'update_params':
            if kind == 'conv2d':
                st['a'] = [0.5, 1.5, -2.0, 3.25][o.choice(4)]
                ctx.log(['update_params', st['a']])
                r = ctx.call('update_params', asm.update_params, a=st['a'])
            elif kind in ('matpar2d', 'matparvec2d'):
                st['Q'] = (st['Q'] + 1 + o.choice(2)) % 3
                lay = o.choice(NLAYOUTS)
                ctx.log(['update_params', 'Q%d' % st['Q'], 'layout', lay])
                ctx.count('op.update_params.layout%d' % lay)
                if kind == 'matpar2d':
                    r = ctx.call('update_params', asm.update_params, Q=relayout(QS[st['Q']], lay))
                else:
                    r = ctx.call('update_params', asm.update_params, Bm=relayout(BMS[st['Q'] % len(BMS)], lay))
            else:
                st['b'] = [(0.5, -1.0), (2.0, 0.25), (0.0, 1.0)][o.choice(3)]
                lay = o.choice(NLAYOUTS)
                ctx.log(['update_params', list(st['b']), 'layout', lay])
                r = ctx.call('update_params', asm.update_params, b=relayout(np.array(st['b']), lay))
            if r is RAISED():
                return
            updated = True
            ctx.count('op.update_params')
            continue
        if op == 'taskfail':
            if pyiga.get_max_threads() <= 1:
                continue
            ctl.fail_next = True
            ctl.fault_fired = False
            IJ = np.array([(i, j) for i in range(m) for j in range(n)], dtype=np.uintp)
            ctx.log(['multi_entries-with-failing-task'])
            V = None
            try:
                V = (asm.multi_blocks if case.vector else asm.multi_entries)(IJ)
                raised = False
            except Exception:     # noqa: the call may report the failure in whatever way it likes
                raised = True
            ctl.fail_next = False
            if not ctl.fault_fired:
                ctx.count('fault.task-failure.not-reached')     # e.g. the implementation did not use the pool here
            elif raised:
                ctx.count('fault.task-failure.propagated')
            else:
                # the failure was absorbed (e.g. the chunk was recomputed elsewhere): legitimate as long as the
                # returned values are right -- what must not happen is a silently wrong result
                want = (R.reshape(m * n, *R.shape[2:]) if case.vector else R.reshape(-1))
                got = np.asarray(V)
                got = got.reshape(want.shape) if got.size == want.size else got
                cmp_close(got, want, 'task-failure-wrong-result', 'a worker task failed, the call returned normally, and the result is wrong')
                ctx.count('fault.task-failure.absorbed')
            continue
        if op == 'assemble':
            symmetric = bool(o.choice(2)) and case.symmetric_form and case.arity == 2
            fmt = ['csr', 'csc', 'coo', 'bsr', 'mlb'][o.choice(5 if case.vector else 4)]
            layout = ['blocked', 'packed'][o.choice(2)]
            ctx.log(['assemble', symmetric, fmt, layout, pyiga.get_max_threads()])
            ctx.count('op.assemble')
            ctx.count('assemble.%s.%s.%s' % ('sym' if symmetric else 'gen', fmt, layout if case.vector else '-'))
            A = ctx.call('assemble_entries', assemble.assemble_entries, asm, symmetric=symmetric, format=fmt, layout=layout)
            if A is RAISED():
                return
            check_handed_out()
            remember(A, 'assemble_entries(symmetric=%s, %s, %s)' % (symmetric, fmt, layout))
            if fam != 'taskfail':
                A1 = one_thread(assemble.assemble_entries, asm, symmetric=symmetric, format=fmt, layout=layout)
                cmp_threads(A, A1, 'assemble_entries(symmetric=%s, %s, %s)' % (symmetric, fmt, layout))
            if case.arity == 1:
                want = R
                if kind == 'vfun2d' and layout == 'blocked':
                    want = np.moveaxis(R, -1, 0)        # documented: component axis first in the blocked layout
                cmp_close(np.asarray(A), want, 'vector-differs', 'assembled vector (layout %s) differs from the reference' % layout,
                          layout=layout)
                continue
            D = todense(A)
            if case.vector:
                packed, blocked = blocked_dense(R)
                want = packed if layout == 'packed' else blocked
            else:
                want = R
            if symmetric:
                cmp_close(D, want, 'symmetric-differs', 'symmetric=True %s/%s differs from the general reference' % (fmt, layout),
                          fmt=fmt, layout=layout)
                cmp_close(D, D.T, 'symmetric-not-symmetric', 'symmetric=True result is not symmetric', fmt=fmt)
            else:
                cmp_close(D, want, 'matrix-differs', 'format %s layout %s differs from the entry-by-entry reference'
                          % (fmt, layout), fmt=fmt, layout=layout)
            continue
        if op == 'highlevel':
            # the documented one-call route: assemble(problem, kvs, ...) -> compile cache -> instantiate -> assemble_entries
            symmetric = bool(o.choice(2)) and case.symmetric_form and case.arity == 2
            fmt = ['csr', 'csc', 'coo', 'bsr', 'mlb'][o.choice(5 if case.vector else 4)]
            layout = ['blocked', 'packed'][o.choice(2)]
            a = case.args(st, o.choice(NLAYOUTS) if kind in ('matpar2d', 'matparvec2d', 'vec22p') else 0)
            kw = {}
            if case.boundary is not None:
                kw['boundary'] = case.boundary
            kvs_arg = (case.kvs, case.kvs1) if case.kvs1 is not None else case.kvs
            ctx.log(['assemble()', symmetric, fmt, layout, pyiga.get_max_threads()])
            ctx.count('op.highlevel')
            A = ctx.call('assemble', assemble.assemble, make_form(kind), kvs_arg, symmetric=symmetric, format=fmt, layout=layout,
                         args=a, **kw)
            if A is RAISED():
                return
            if case.arity == 1:
                want = R
                if kind == 'vfun2d' and layout == 'blocked':
                    want = np.moveaxis(R, -1, 0)
                cmp_close(np.asarray(A), want, 'highlevel-vector-differs', 'assemble(form, kvs) (layout %s) differs from the reference' % layout)
                continue
            D = todense(A)
            want = R
            if case.vector:
                packed, blocked = blocked_dense(R)
                want = packed if layout == 'packed' else blocked
            cmp_close(D, want, 'highlevel-differs', 'assemble(form, kvs, symmetric=%s, format=%s, layout=%s) '
                                                    'differs from the entry-by-entry reference' % (symmetric, fmt, layout), fmt=fmt, layout=layout)
            continue
        if op == 'rows':
            # only selected rows (the route hierarchical assembly takes): _assemble_partial_rows
            from pyiga import _hdiscr
            rk = o.weighted([('random', 5), ('single', 1), ('all', 1), ('block', 2)])
            if rk == 'single':
                rows = [data.choice(m)]
            elif rk == 'all':
                rows = list(range(m))
            elif rk == 'block':
                a = data.choice(m)
                rows = list(range(a, min(m, a + 1 + data.choice(m))))
            else:
                rows = sorted(set(data.choice(m) for _ in range(1 + data.choice(m))))
            ctx.log(['rows', rk, rows, pyiga.get_max_threads()])
            ctx.count('op.rows')
            A = ctx.call('_assemble_partial_rows', _hdiscr._assemble_partial_rows, asm, np.array(rows, dtype=int))
            if A is RAISED():
                return
            want = np.zeros_like(R)
            want[rows] = R[rows]
            cmp_threads(A, one_thread(_hdiscr._assemble_partial_rows, asm, np.array(rows, dtype=int)), 'rows %s' % (rows,))
            cmp_close(todense(A), want, 'rows-differ', 'assembly of the selected rows %s differs from the reference rows' % (rows,))
            continue
        if op == 'entry':
            i, j = data.choice(m), data.choice(n)
            if case.vector:
                continue
            v = ctx.call('entry', asm.entry, i, j)
            if v is RAISED():
                return
            ctx.log(['entry', i, j])
            cmp_close(v, R[i, j], 'entry-differs', 'entry(%d,%d)' % (i, j))
            continue
        if op == 'subset':
            sk = o.weighted([('random', 5), ('dups', 2), ('single', 1), ('all', 2), ('row', 2), ('empty', 1)])
            if sk == 'empty':
                IJ = np.zeros((0, 2), dtype=np.uintp)
            elif sk == 'single':
                IJ = np.array([[data.choice(m), data.choice(n)]], dtype=np.uintp)
            elif sk == 'all':
                IJ = np.array([(i, j) for i in range(m) for j in range(n)], dtype=np.uintp)
            elif sk == 'row':
                i = data.choice(m)
                IJ = np.array([(i, j) for j in range(n)], dtype=np.uintp)
            else:
                k = 1 + data.choice(60)
                IJ = np.array([(data.choice(m), data.choice(n)) for _ in range(k)], dtype=np.uintp)
                if sk == 'dups' and k > 1:
                    IJ[k // 2:] = IJ[:k - k // 2]
            as_list = bool(o.choice(4) == 0) and len(IJ) > 0
            ctx.log(['multi_blocks' if case.vector else 'multi_entries', sk, len(IJ), pyiga.get_max_threads()])
            ctx.count('op.subset.' + sk)
            arg = [tuple(int(x) for x in r) for r in IJ] if as_list else IJ
            if case.vector:
                V = ctx.call('multi_blocks', asm.multi_blocks, arg)
                if V is RAISED():
                    return
                want = R[IJ[:, 0].astype(int), IJ[:, 1].astype(int)] if len(IJ) else np.zeros((0,) + R.shape[2:])
                V = np.asarray(V).reshape(want.shape) if np.asarray(V).size == want.size else np.asarray(V)
                if fam != 'taskfail':
                    V1 = one_thread(asm.multi_blocks, arg)
                    cmp_threads(V, None if V1 is None else np.asarray(V1).reshape(np.asarray(V).shape), 'multi_blocks(%s subset)' % sk, subset=sk)
                cmp_close(V, want, 'subset-blocks-differ', 'multi_blocks on a %s subset of %d pairs' % (sk, len(IJ)), subset=sk)
            else:
                V = ctx.call('multi_entries', asm.multi_entries, arg)
                if V is RAISED():
                    return
                want = R[IJ[:, 0].astype(int), IJ[:, 1].astype(int)] if len(IJ) else np.zeros(0)
                if fam != 'taskfail':
                    cmp_threads(V, one_thread(asm.multi_entries, arg), 'multi_entries(%s subset)' % sk, subset=sk)
                cmp_close(V, want, 'subset-entries-differ', 'multi_entries on a %s subset of %d pairs' % (sk, len(IJ)), subset=sk)
            continue
        if op == 'wrapper':
            st['f'] = (st['f'] + 1) % 3
            # ONE long-lived high-level Assembler per run, re-used across calls (its symmetric flag is fixed at
            # construction; format and layout vary per call)
            if wrapper[0] is None:
                wsym = bool(o.choice(2)) and case.symmetric_form and case.arity == 2
                W = ctx.call('Assembler', assemble.Assembler, case.cls, case.kvs, args=case.args(dict(st, f=(st['f'] + 1) % 3)),
                             updatable=['f'], symmetric=wsym)
                if W is RAISED():
                    return
                wrapper[0] = (W, wsym)
                ctx.count('op.wrapper.created')
            W, wsym = wrapper[0]
            wfmt = ['csr', 'csc', 'coo'][o.choice(3)]
            explicit = bool(o.choice(2))
            inplace = bool(o.choice(2))
            ctx.log(['Assembler.assemble', 'f%d' % st['f'], wsym, wfmt, explicit, 'same-object-mutated' if inplace else 'new-object'])
            fobj = case.fields[st['f']]
            if inplace:
                case.mfield.coeffs[...] = case.fields[st['f']].coeffs
                fobj = case.mfield
                ctx.count('op.wrapper.inplace')
            if explicit:
                r = ctx.call('Assembler.update', W.update, f=fobj)
                if r is RAISED():
                    return
                A = ctx.call('Assembler.assemble', W.assemble, format=wfmt)
            else:
                A = ctx.call('Assembler.assemble', W.assemble, format=wfmt, f=fobj)
            if A is RAISED():
                return
            check_handed_out()
            remember(A, 'Assembler.assemble(symmetric=%s, %s)' % (wsym, wfmt))
            # the long-lived object follows the model too
            r = ctx.call('update', asm.update, f=case.fields[st['f']])
            if r is RAISED():
                return
            updated = True
            R = case.reference(st)
            if kind == 'vfun2d':
                R = np.moveaxis(R, -1, 0)
            elif case.vector:
                R = blocked_dense(R)[1]
            cmp_close(todense(A) if case.arity == 2 else np.asarray(A), R, 'wrapper-differs',
                      'Assembler(...).assemble(f=...) differs from constructing afresh')
            ctx.count('op.wrapper')
            continue
        if op == 'ondemand':
            # bounding box in cells; entries whose joint support lies inside must agree
            bbox = []
            for kv in case.kvs:
                nc = kv.numspans
                a = data.choice(nc)
                b = a + 1 + data.choice(nc - a)
                bbox.append((a, b))
            bbox = tuple(bbox)
            if ondemand and o.choice(2):
                # re-use a long-lived on-demand instance created earlier in this history: bring it up to date
                # with update()/update_params() instead of constructing afresh
                bbox = sorted(ondemand)[o.choice(len(ondemand))]
                od, ost = ondemand[bbox]
                ctx.log(['ondemand-reuse', [list(b) for b in bbox]])
                if kind == 'field2d' and ost['f'] != st['f']:
                    if ctx.call('on-demand update', od.update, f=case.fields[st['f']]) is RAISED():
                        return
                if kind == 'conv2d' and ost['a'] != st['a']:
                    if ctx.call('on-demand update_params', od.update_params, a=st['a']) is RAISED():
                        return
                ondemand[bbox] = (od, dict(st))
                ctx.count('op.ondemand.reused')
            else:
                ctx.log(['ondemand', [list(b) for b in bbox]])
                od = ctx.call('on-demand constructor', case.instantiate, st, True, bbox)
                if od is RAISED():
                    return
                ondemand[bbox] = (od, dict(st))
            # functions whose support lies inside the box, per direction
            inside = []
            for kv, (a, b) in zip(case.kvs, bbox):
                ms = kv.mesh_support_idx_all()
                inside.append([i for i in range(kv.numdofs) if ms[i, 0] >= a and ms[i, 1] <= b])
            if not all(inside):
                ctx.count('op.ondemand.empty')
                continue
            nd = [kv.numdofs for kv in case.kvs]
            idx = [int(np.ravel_multi_index(t, nd)) for t in itertools.product(*inside)]
            pairs = [(i, j) for i in idx for j in idx]
            if len(pairs) > 400:
                pairs = [pairs[data.choice(len(pairs))] for _ in range(400)]
            IJ = np.array(pairs, dtype=np.uintp)
            V = ctx.call('on-demand multi_entries', od.multi_entries, IJ)
            if V is RAISED():
                return
            want = R[IJ[:, 0].astype(int), IJ[:, 1].astype(int)]
            cmp_close(V, want, 'ondemand-differs', 'on-demand assembler with bbox %s differs on entries inside the box' % (bbox,))
            ctx.count('op.ondemand')
            continue
    check_handed_out()
    ctx.nontrivial = bool(ctl.nontrivial or updated)
    ctx.state = (kind, tuple(map(tuple, case.desc['degs_ncells'])), case.desc['knots'], case.desc['geo'])
    ctx.sim_time = float(ctl.calls)
    ctx.interleaving = ctl.schedule


def main_check(prop, tier, seed, cfg, args):
    from . import runner
    try:
        extra = precompile()
    except Exception as e:
        print('HARNESS-ERROR property=%s precompile failed: %r' % (prop, e))
        return 2
    params = {'kind': args.only} if getattr(args, 'only', None) in KINDS else None      # development aid: one kind only
    return runner.run_check(prop, tier, seed, cfg['nruns'], wall_cap=cfg.get('wall_cap', 3000), extra_evidence=extra, params=params)
