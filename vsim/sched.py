"""Baton-passing deterministic scheduler.

Actors are real threads running real code; exactly one holds the baton.  An
actor gives the baton back at every *yield point* (a mediated seam call); the
scheduler then draws the next actor from the run's `sched` stream and may
inject a fault there.  A killed actor is resumed once with `dead=True`: it
raises Killed (a BaseException) at its yield point and every later seam call
of that actor raises Killed again without touching the world, so `finally`
blocks unwind without effect -- the observable behaviour of SIGKILL.
"""
import threading


class Killed(BaseException):
    pass


class InterpreterCrash(BaseException):
    """The simulated process died from a fatal signal (SIGBUS/SIGSEGV)."""


class Actor:
    def __init__(self, sched, name, fn):
        self.sched = sched
        self.name = name
        self.fn = fn
        self.sem = threading.Semaphore(0)
        self.done = False
        self.dead = False
        self.crashed = None
        self.error = None
        self.result = None
        self.label = 'start'
        self.steps = 0
        self.started = False
        self.thread = threading.Thread(target=self._main, name='actor-' + name, daemon=True)

    def _main(self):
        self.sem.acquire()
        try:
            if self.dead:
                raise Killed()
            self.result = self.fn(self)
        except Killed:
            pass
        except InterpreterCrash as e:
            self.crashed = str(e)
        except BaseException as e:     # noqa -- harness/actor-level exception, reported by the engine
            self.error = e
        finally:
            self.done = True
            self.sched.main_sem.release()

    def yield_point(self, label):
        """Called from the actor's own thread inside a seam."""
        if self.dead:
            raise Killed()
        self.label = label
        self.steps += 1
        self.sched.main_sem.release()
        self.sem.acquire()
        if self.dead:
            raise Killed()

    def check_alive(self):
        if self.dead:
            raise Killed()


class Sched:
    def __init__(self, stream, fault_hook=None, step_cap=5000, log=None):
        self.stream = stream
        self.fault_hook = fault_hook
        self.step_cap = step_cap
        self.actors = []
        self.main_sem = threading.Semaphore(0)
        self.step = 0
        self.log = log
        self.order = []
        self.after_step = None
        self.capped = False

    def spawn(self, name, fn):
        a = Actor(self, name, fn)
        self.actors.append(a)
        a.thread.start()
        return a

    def runnable(self):
        return [a for a in self.actors if not a.done]

    def _resume(self, a):
        a.started = True
        a.sem.release()
        self.main_sem.acquire()

    def kill(self, a):
        """SIGKILL: the actor never performs another effect."""
        if a.done:
            return
        a.dead = True
        self._resume(a)     # let it unwind (effect-free)

    def run(self, actors=None):
        """Run until all given actors (default: all) are done."""
        while True:
            pool = [a for a in (actors or self.actors) if not a.done]
            if not pool:
                return True
            if self.step >= self.step_cap:
                self.capped = True
                for a in pool:
                    self.kill(a)
                return False
            a = pool[self.stream.choice(len(pool))]
            self.step += 1
            self.order.append(a.name)
            if self.fault_hook is not None:
                act = self.fault_hook(self, a)
                if act == 'kill':
                    self.kill(a)
                    if self.after_step:
                        self.after_step(self, a)
                    continue
            self._resume(a)
            if self.after_step:
                self.after_step(self, a)
