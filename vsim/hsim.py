"""hsim -- refinement-history simulation of pyiga.hierarchical.HSpace against
the set-algebra model of hmodel.py.  Serves C04 (well-formedness), and the
history-quantified clauses of C05 (transfers), C03 (assembly), C11 (multigrid).

A run = one seeded configuration (dim, degrees, coarse knots, basis, disparity,
Dirichlet spec) + a seeded history of state-changing operations (refine with
multi-level marks in any container type, refine_region, truncate-flag flips,
copy-and-continue, snapshots) freely interleaved with cache-filling queries.
Invariants are evaluated after every operation.
"""
import contextlib
import io
import itertools
import os

import numpy as np
import scipy.sparse as sp

from . import env
from .hmodel import Model

env.setup_import()

RULE = {
    '*': 'a run = seeded HSpace configuration (dim 1-3, degree 1-4 per direction, 2-5 coarse cells, '
         'uniform/non-uniform/repeated coarse knots, HB/THB, disparity 1/2/3/inf, bdspecs None/[]/faces) + '
         'seeded history of 1-7 state-changing ops (refine with marks on 1-3 levels as set/list/tuple, '
         'refine_region, truncate flip, copy-and-continue, snapshot) interleaved with cache-filling queries; '
         'property invariants evaluated after every op.  non-trivial = >= 2 refinements with at least one '
         'cache-filling query between two of them (or a multi-level mark); distinct = distinct final model '
         'state (per-level refined-cell sets) together with the configuration',
}
REAL_VS_STUB = {
    '*': {'real': ['pyiga.hierarchical.HSpace/HMesh/TPMesh', 'pyiga.hierarchical.HSplineFunc',
                   'pyiga._hdiscr.HDiscretization + compiled on-demand assemblers (C03)',
                   'pyiga.solvers.local_mg_step/iterative_solve/solve_hmultigrid (C11)'],
          'stub': [],
          'model': ['set-algebra HSpace model (hmodel.py): refined-cell sets per level, activity from the '
                    'definition via summed-area tables', 'independent TP prolongation by least squares on '
                    'scipy BSpline design matrices']},
}
ASSUMPTIONS = {
    'C04': ['the cells actually refined under finite disparity are taken from the dict refine() returns '
            '(checked: superset of the request, subset of previously active cells); admissibility is checked independently',
            'sizes: <= 5 levels in 1D, <= 4 in 2D, <= 3 in 3D; <= ~1500 fine dofs'],
    'C05': ['decides only the hierarchical clauses (prolongate_to, virtual hierarchy, represent_fine, HSplineFunc '
            'evaluation, boundary restriction); bspline.prolongation/knot_insertion for arbitrary knot vectors are pure '
            'functions and not decided here',
            'fine-level evaluation reference = pyiga BSplineFunc on the finest tensor-product level (as the property states)'],
    'C03': ['decides the polynomial-integrand identity A_h = I^T A_fine I (mass, stiffness, convection, L2 functional) on '
            'affine geometry, THB congruence and symmetric==general; non-polynomial integrands/curved geometry and '
            'vector-valued forms are not decided',
            'A_fine is pyiga\'s own tensor-product assembly on the finest level (the property\'s reference)'],
    'C11': ['decides the hierarchical clauses (smoothing sets, fixed point, energy monotonicity with exact smoother, '
            'stopping rules of iterative_solve/solve_hmultigrid); Gauss-Seidel kernels vs textbook and twogrid are pure and not decided',
            'operator = I^T (M + c K) I from Kronecker 1D matrices: any SPD matrix is admissible for these clauses'],
}
SHRINK_ORDER = ['ops', 'cfg', 'data']
BRANCH_FIELDS = ['hs', 'model', 'truncate', 'history', 'requests', 'nqueries', 'nondefault_marking',
                 'queried_since_refine', 'nrefine']

TOL = 1e-10


def preimport():
    import pyiga.hierarchical, pyiga.assemble, pyiga.bspline, pyiga.solvers, pyiga.geometry, pyiga.vform  # noqa
    import pyiga.compile  # noqa


def RAISED():
    from .runner import RAISED as R
    return R


# ----------------------------------------------------------------------------
# configuration

def gen_config(ctx):
    c = ctx.ch.stream('cfg')
    prop = ctx.prop
    thorough = ctx.tier == 'thorough'
    if prop == 'C03':
        dim = c.weighted([(2, 6), (1, 4)])
    else:
        dim = c.weighted([(1, 4), (2, 6)] + ([(3, 1)] if (thorough or prop == 'C04') else []))
    pmax = 4 if dim == 1 else (3 if dim == 2 else 2)
    degs = [c.intrange(1, pmax) for _ in range(dim)]
    ncoarse = [c.intrange(2, 5 if dim == 1 else (4 if dim == 2 else 2)) for _ in range(dim)]
    wide = bool(dim <= 2 and c.chance(30))
    if wide:
        # a wide coarse mesh with a real interior (low degree keeps it cheap): refinements far from the
        # boundary whose disparity closure reaches it, isolated refined islands, ...
        degs = [min(p, 2) for p in degs]
        ncoarse = [c.intrange(6, 12) if dim == 1 else c.intrange(5, 7) for _ in range(dim)]
    knotkind = c.weighted([('uniform', 6), ('nonuniform', 2), ('repeated', 1), ('mixed', 3)])
    if knotkind == 'mixed' and dim >= 2:
        # anisotropic knots; in half of these runs all axes share degree and size, so that only the knot
        # positions distinguish the directions
        if c.choice(2):
            degs = [degs[0]] * dim
            ncoarse = [ncoarse[0]] * dim
        kinds = [c.pick(['uniform', 'nonuniform', 'graded', 'repeated']) for _ in range(dim)]
        if len(set(kinds)) == 1:
            kinds[-1] = 'graded' if kinds[0] != 'graded' else 'uniform'
    else:
        if knotkind == 'mixed':
            knotkind = 'nonuniform'
        kinds = [knotkind] * dim
    # the parameter domain is [0, pscale]^dim: everything here is invariant under scaling of the parameters, also
    # for a nano-scale or a kilometre-scale parameter domain (absolute tolerances in knot comparisons are not)
    pscale = 1.0
    if prop in ('C04', 'C05'):
        pscale = c.weighted([(1.0, 17), (2.0 ** -27, 2), (1000.0, 1)])
    knots0 = []
    for d in range(dim):
        br = np.linspace(0.0, 1.0, ncoarse[d] + 1)
        if kinds[d] == 'nonuniform':
            br = br ** 1.5
        elif kinds[d] == 'graded':
            br = 1.0 - (1.0 - br) ** 2
        t = [0.0] * (degs[d] + 1) + list(br[1:-1]) + [1.0] * (degs[d] + 1)
        if kinds[d] == 'repeated' and degs[d] >= 2 and ncoarse[d] >= 2:
            t.append(br[1])     # one double interior knot
        knots0.append(np.array(sorted(t)) * pscale)
    truncate = bool(c.choice(2))
    disparity = c.weighted([(np.inf, 4), (1, 3), (2, 2), (3, 1)])
    faces = [(ax, s) for ax in range(dim) for s in (0, 1)]
    bk = c.weighted([('faces', 4), ('none', 2), ('empty', 1), ('all', 2)])
    if bk == 'none':
        bdspecs = None
    elif bk == 'empty':
        bdspecs = []
    elif bk == 'all':
        bdspecs = list(faces)
    else:
        bdspecs = [faces[i] for i in c.sample_positions(len(faces), len(faces) - 1)]
    maxlevel = {1: 4, 2: 3, 3: 2}[dim]      # highest level index that may hold cells
    if dim == 2 and max(ncoarse) >= 4:
        maxlevel = 2 if prop in ('C03',) else 3
    if prop in ('C03', 'C11') and dim == 2:
        maxlevel = min(maxlevel, 3)
    nops = c.intrange(2, 10 if prop in ('C11', 'C04') else 7)
    if wide:
        maxlevel = min(maxlevel, 3 if dim == 1 else 2)
    # a user of THB-splines passes truncate=True to EVERY refine() call: T-admissible meshes that are not H-admissible
    mark_truncate_always = bool(disparity != np.inf and c.chance(25))
    return dict(dim=dim, degs=degs, ncoarse=ncoarse, knotkind=knotkind, wide=wide, pscale=pscale, mark_truncate_always=mark_truncate_always, knots0=knots0, truncate=truncate,
                disparity=disparity, bdspecs=bdspecs, maxlevel=maxlevel, nops=nops)


def cfg_desc(cfg):
    d = dict(cfg)
    d['knots0'] = [list(np.round(t, 6)) for t in cfg['knots0']]
    d['disparity'] = 'inf' if cfg['disparity'] == np.inf else int(cfg['disparity'])
    return d


# ----------------------------------------------------------------------------
# the simulated world: real HSpace + model + bookkeeping

class World:
    def __init__(self, ctx, cfg):
        from pyiga import bspline, hierarchical
        self.ctx = ctx
        self.cfg = cfg
        self.kvs = tuple(bspline.KnotVector(np.array(t), p) for t, p in zip(cfg['knots0'], cfg['degs']))
        self.hs = hierarchical.HSpace(self.kvs, truncate=cfg['truncate'], disparity=cfg['disparity'],
                                      bdspecs=cfg['bdspecs'])
        self.model = Model(cfg['degs'], cfg['knots0'])
        self.truncate = cfg['truncate']
        self.history = []           # actual refinements (dict level -> sorted list of cells)
        self.requests = []          # the refinement calls as issued (for the fresh-replay coherence oracle)
        self.nqueries = 0
        self.nondefault_marking = False
        self.snapshots = []         # (hs deep copy, model copy, step)
        self.originals = []         # (hs original before copy(), model copy, truncate flag)
        self.nrefine = 0
        self.query_between = False
        self.queried_since_refine = False
        self.multilevel = False

    def sig(self, **kw):
        s = {'what': kw.pop('what', 'structure')}
        s.update(kw)
        return s


def marks_from_choices(w, o):
    """Draw a non-empty marking dict (positional choices among the currently
    active cells of the model).  Returns (marks as dict level->list, containers)."""
    m = w.model
    levels = [l for l in range(min(m.L, w.cfg['maxlevel'])) if m.active_cells(l)]
    if not levels:
        return None, None
    nlev = o.weighted([(1, 6), (2, 3), (3, 1)])
    chosen = []
    for _ in range(nlev):
        l = levels[o.choice(len(levels))]
        if len(levels) >= 2 and l == levels[-1] and o.choice(2):
            l = levels[o.choice(len(levels) - 1)]       # bias: refinements that do NOT add a level
        if l not in chosen:
            chosen.append(l)
    marks, kinds = {}, {}
    for l in chosen:
        act = sorted(m.active_cells(l))
        pat = o.weighted([('few', 5), ('single', 3), ('block', 3), ('all', 1), ('row', 1), ('subset', 2), ('interior', 3),
                          ('frontier', 3)])
        if pat == 'frontier' and l >= 1:
            # cells at the frontier of the level-l region (a neighbour of the ancestor d levels up is still an
            # ACTIVE coarser cell): exactly where the disparity closure has to refine coarser cells as well
            dd = int(w.cfg['disparity']) if w.cfg['disparity'] != np.inf and l - w.cfg['disparity'] >= 0 else 1
            fr = frontier_cells(m, l, dd) or act
            cells = [fr[i] for i in o.sample_positions(len(fr), 2)]
        elif pat in ('interior', 'frontier'):
            # one or two cells that do not touch the boundary of the domain (if there are any): what an
            # adaptive loop marks; only the disparity closure may then reach the boundary
            nc = m.ncells(l)
            inner = [c for c in act if all(0 < ci < n - 1 for ci, n in zip(c, nc))] or act
            cells = [inner[i] for i in o.sample_positions(len(inner), 2)]
        elif pat == 'subset':
            # uniformly random non-empty subset (every cell with probability 1/2): the quantifier's
            # "all non-empty subsets of active cells", sampled
            cells = [c for c in act if o.choice(2)]
            if not cells:
                cells = [act[o.choice(len(act))]]
        elif pat == 'single':
            cells = [act[o.choice(len(act))]]
        elif pat == 'few':
            cells = [act[i] for i in o.sample_positions(len(act), 4)]
        elif pat == 'all':
            cells = list(act)
        elif pat == 'row':
            c0 = act[o.choice(len(act))]
            cells = [c for c in act if c[0] == c0[0]]
        else:
            c0 = act[o.choice(len(act))]
            r = 1 + o.choice(2)
            cells = [c for c in act if all(abs(a - b) <= r for a, b in zip(c, c0))]
        marks[l] = sorted(set(cells))
        kinds[l] = o.pick(['set', 'list', 'tuple'])
        if pat == 'all' and o.chance(50):
            # "refine this whole level": the caller hands the space's OWN set hs.active_cells(l) back to refine()
            kinds[l] = 'live'
    return marks, kinds


def frontier_cells(m, l, d):
    """active cells of level l whose level-(l-d) ancestor has a still ACTIVE neighbour cell on level l-d"""
    if l - d < 0:
        return []
    coarse = m.active_cells(l - d)
    return [c for c in sorted(m.active_cells(l))
            if any(tuple((ci >> d) + dj for ci, dj in zip(c, off)) in coarse
                   for off in itertools.product((-1, 0, 1), repeat=len(c)))]


def deep_script(w, o):
    """Scripted prefix for finite disparity d >= 2: build a steep hierarchy of d+2 levels by refining a cell, one of
    its children, one of its grandchildren ..., then mark cells on the TWO deepest markable levels in ONE call
    (levels whose difference is not a multiple of d), preferring cells whose level-(l-d) neighbourhood is still
    active."""
    d = int(w.cfg['disparity'])
    w.cfg['maxlevel'] = max(w.cfg['maxlevel'], d + 2)
    depth = min(w.cfg['maxlevel'] - 1, d + 1)       # deepest level to be marked in the last step

    def step(l):
        def fn(w, o, l=l):
            m = w.model
            act = sorted(m.active_cells(l))
            if not act:
                return None, None
            if l - d >= 0:
                # this call already triggers the closure d levels below: keep it local, so that other cells of
                # this level keep a still-active coarse neighbourhood
                cells = [act[o.choice(len(act))]]
            else:
                cells = [c for c in act if o.choice(2)] or [act[o.choice(len(act))]]       # a broad random subset
            return {l: cells}, {l: o.pick(['set', 'list', 'tuple'])}
        return fn

    def two_levels(w, o):
        m = w.model
        marks, kinds = {}, {}
        for l in (depth, depth - 1):
            act = sorted(m.active_cells(l))
            if not act:
                continue
            fr = frontier_cells(m, l, d) or act
            marks[l] = sorted(set(fr[i] for i in o.sample_positions(len(fr), 2)))
            kinds[l] = o.pick(['set', 'list', 'tuple'])
        return (marks, kinds) if marks else (None, None)
    return [('refine', step(l)) for l in range(depth)] + [('refine', two_levels)]


def adaptive_script(w, o):
    """A scripted history prefix imitating an adaptive loop on a wide mesh: refine an interior block, refine
    part of it again (a third level appears), USE the space (Dirichlet/smoothing queries fill the caches), then
    refine a cell at the frontier of the level-1 region WITHOUT adding a level -- the disparity closure then has
    to refine coarser cells, possibly up to the boundary.  The rest of the history is random as usual."""
    def block0(w, o):
        m = w.model
        act = sorted(m.active_cells(0))
        nc = m.ncells(0)
        inner = [c for c in act if all(0 < ci < n - 1 for ci, n in zip(c, nc))] or act
        c0 = inner[o.choice(len(inner))]
        r = o.choice(2)
        cells = [c for c in act if all(abs(a - b) <= r for a, b in zip(c, c0))]
        return {0: sorted(cells)}, {0: o.pick(['set', 'list', 'tuple'])}

    def centre1(w, o):
        m = w.model
        act = sorted(m.active_cells(1))
        if not act:
            return None, None
        cells = [act[i] for i in o.sample_positions(len(act), 3)]
        return {1: sorted(set(cells))}, {1: o.pick(['set', 'list', 'tuple'])}

    def frontier1(w, o):
        m = w.model
        act = sorted(m.active_cells(1))
        if not act:
            return None, None
        coarse = m.active_cells(0)
        fr = [c for c in act if any(tuple((ci >> 1) + dj for ci, dj in zip(c, off)) in coarse
                                    for off in itertools.product((-1, 0, 1), repeat=len(c)))] or act
        cells = [fr[i] for i in o.sample_positions(len(fr), 2)]
        return {1: sorted(set(cells))}, {1: o.pick(['set', 'list', 'tuple'])}
    qname = o.pick(['index_dirichlet', 'smooth:func_supp', 'dirichlet_dofs', 'non_dirichlet_dofs', 'smooth:new',
                    'ravel_dirichlet', 'ravel_global', 'smooth:cell_supp'])
    return [('refine', block0), ('refine', centre1), ('query', qname), ('refine', frontier1)]


def containerise(marks, kinds):
    out = {}
    for l, cells in marks.items():
        k = kinds[l]
        out[l] = set(cells) if k == 'set' else (list(cells) if k == 'list' else tuple(cells))
    return out


def do_refine(w, marks, kinds, via='refine', region=None, mark_truncate=False):
    ctx, hs, m = w.ctx, w.hs, w.model
    if mark_truncate:
        # refine(marked, truncate=True): the THB-admissible (smaller) marking neighbourhood.  Not the default
        # marking, so the property's HB disparity clause is not demanded from here on; everything else is.
        w.nondefault_marking = True
    before_active = {l: set(m.active_cells(l)) for l in range(m.L + 1)}
    levels_before = m.L
    arg = containerise(marks, kinds)
    for l in list(arg):
        if kinds.get(l) == 'live':
            live = ctx.call('active_cells', hs.active_cells, l)
            if live is not RAISED() and isinstance(live, (set, frozenset, list, tuple)) and set(live) == set(marks[l]):
                arg[l] = live
                ctx.count('op.refine.marks-are-the-live-active-set')
    if via == 'refine':
        w.requests.append(('refine', containerise(marks, kinds), mark_truncate))
        if mark_truncate:
            ret = ctx.call('refine', hs.refine, arg, truncate=True)
        else:
            ret = ctx.call('refine', hs.refine, arg)
    else:
        lv, pred = region
        w.requests.append(('region', lv, pred))
        ret = ctx.call('refine_region', hs.refine_region, lv, pred)
    if ret is RAISED():
        return False
    # the documented return value: the actually refined cells, same format
    ok = isinstance(ret, dict)
    actual = {}
    if ok:
        for l, cells in ret.items():
            cs = set(tuple(int(x) for x in c) for c in cells)
            if cs:
                actual[int(l)] = cs
    req_ok = ok and all(set(marks[l]) <= actual.get(l, set()) for l in marks)
    ctx.check(req_ok, 'refine-return', lambda: 'refine() returned %r for request %r' % (ret, arg),
              w.sig(what='refine-return'))
    if not req_ok:
        return False
    act_ok = all(cs <= before_active.get(l, set()) for l, cs in actual.items())
    ctx.check(act_ok, 'refine-return-active', lambda: 'returned cells %r were not all active before the call'
              % {l: sorted(cs - before_active.get(l, set())) for l, cs in actual.items()},
              w.sig(what='refine-return'))
    if not act_ok:
        return False
    if w.cfg['disparity'] == np.inf:
        ctx.check(all(actual.get(l, set()) == set(marks.get(l, [])) for l in set(actual) | set(marks)),
                  'refine-return-exact', 'with infinite disparity exactly the requested cells must be refined',
                  w.sig(what='refine-return'))
    # probes: did the disparity closure add cells, and do only the ADDED cells touch a Dirichlet face?
    added = {l: cs - set(marks.get(l, [])) for l, cs in actual.items()}
    if any(added.values()):
        ctx.count('probe.refine.closure-added-cells')

        def touches(cells_by_level):
            for l, cs in cells_by_level.items():
                nc = m.ncells(l)
                for (ax, side) in (w.cfg['bdspecs'] or []):
                    k = 0 if side == 0 else nc[ax] - 1
                    if any(c[ax] == k for c in cs):
                        return True
            return False
        if touches(added) and not touches({l: set(cs) for l, cs in marks.items()}):
            ctx.count('probe.refine.only-closure-touches-dirichlet-face')
            if w.queried_since_refine:
                ctx.count('probe.refine.only-closure-touches-dirichlet-face.after-cache-fill')
                if max(actual) + 2 <= levels_before:
                    ctx.count('probe.refine.only-closure-touches-dirichlet-face.after-cache-fill.no-new-level')
    m.apply_refine(actual)
    w.history.append({l: sorted(cs) for l, cs in actual.items()})
    w.nrefine += 1
    if w.queried_since_refine and w.nrefine >= 2:
        w.query_between = True
    w.queried_since_refine = False
    if len(actual) >= 2:
        w.multilevel = True
    return True


# ----------------------------------------------------------------------------
# structural comparison (used by every property to stay in sync with the model)

def deactivated_functions(hs, l, m):
    """deactivated functions of level l as multi-indices, through the PUBLIC deactivated_indices() (documented:
    per level the raveled indices); the attribute pyiga itself uses (deactfun) only as a fallback"""
    try:
        idx = np.asarray(hs.deactivated_indices()[l], dtype=int).ravel()
        if idx.size == 0:
            return set()
        return set(zip(*[a.tolist() for a in np.unravel_index(idx, m.nfuncs(l))]))
    except Exception:
        return set(tuple(int(x) for x in f) for f in hs.deactfun[l])


def structure_matches(w, report):
    """Compare cells and functions of the real object with the model.
    report=True (C04): mismatches are violations.  Otherwise returns False on
    mismatch so that the caller abandons the run (C04's check owns that verdict)."""
    ctx, hs, m = w.ctx, w.hs, w.model
    L = max(hs.numlevels, m.L)
    for l in range(L):
        real_act = set(hs.active_cells(l)) if l < hs.numlevels else set()
        real_de = set(hs.deactivated_cells(l)) if l < hs.numlevels else set()
        real_af = set(hs.active_functions(l)) if l < hs.numlevels else set()
        real_df = deactivated_functions(hs, l, m) if l < hs.numlevels else set()
        ma, mr = m.active_cells(l), m.refined_at(l)
        maf, mdf = m.functions(l)
        for name, a, b in (('active-cells', real_act, ma), ('deactivated-cells', real_de, mr),
                           ('active-functions', real_af, maf), ('deactivated-functions', real_df, mdf)):
            if a != b:
                if report:
                    ctx.violation(name, 'level %d: real-model has %s, model-real has %s (history %s)' % (
                        l, sorted(a - b)[:6], sorted(b - a)[:6], w.history), w.sig(what=name))
                return False
            if report:
                ctx.checks += 1
    return True


def dense(A):
    return A.toarray() if sp.issparse(A) else np.asarray(A)


def maxabs(A):
    if sp.issparse(A):
        return abs(A).max() if A.nnz else 0.0
    A = np.asarray(A)
    return float(np.abs(A).max()) if A.size else 0.0


def check_c04(w, deep=True):
    ctx, hs, m, cfg = w.ctx, w.hs, w.model, w.cfg
    if not structure_matches(w, True):
        return False
    dim = cfg['dim']
    Lh = hs.numlevels
    # --- tiling (from the object's own report, independent of the model)
    top = max([l for l in range(Lh) if hs.active_cells(l)], default=0)
    grid = np.zeros(tuple(n << top for n in m.ncells(0)), dtype=np.int32)
    for l in range(Lh):
        s = top - l
        for c in hs.active_cells(l):
            if s < 0:
                ctx.violation('tiling', 'active cell on empty top level', w.sig(what='tiling'))
                return False
            grid[tuple(slice(ci << s, (ci + 1) << s) for ci in c)] += 1
    ctx.check(bool(np.all(grid == 1)), 'tiling', lambda: 'active cells cover some finest-level cells %s times'
              % sorted(set(np.unique(grid)) - {1}), w.sig(what='tiling'))
    # --- canonical order
    exp_f = [(l, f) for l in range(Lh) for f in sorted(m.functions(l)[0])]
    exp_c = [(l, c) for l in range(Lh) for c in sorted(m.active_cells(l))]
    ctx.check(list(hs.active_functions(flat=True)) == exp_f, 'canonical-order-functions', '', w.sig(what='order'))
    ctx.check(list(hs.active_cells(flat=True)) == exp_c, 'canonical-order-cells', '', w.sig(what='order'))
    ctx.check(hs.numdofs == len(exp_f) and tuple(hs.numactive) == tuple(len(m.functions(l)[0]) for l in range(Lh))
              and hs.total_active_cells == len(exp_c), 'counts', 'numdofs/numactive/total_active_cells', w.sig(what='order'))
    # --- admissibility for finite disparity
    d = cfg['disparity']
    if d != np.inf and not w.nondefault_marking:
        for k in range(m.L):
            act_k = m.functions(k)[0]
            if not act_k:
                continue
            anc = set()
            for l in range(k + int(d) + 1, m.L):
                for c in m.active_cells(l):
                    anc.add(tuple(ci >> (l - k) for ci in c))
            if not anc:
                continue
            cnt = m._boxcount(k, m._grid(k, anc))
            bad = [f for f in act_k if cnt[f] > 0]
            ctx.check(not bad, 'disparity', lambda: 'disparity %s: active level-%d functions %s are nonzero on active '
                      'cells of level > %d (history %s)' % (d, k, bad[:4], k + d, w.history), w.sig(what='disparity'))
    if not deep:
        return True
    nd = hs.numdofs
    nfine = int(np.prod(m.nfuncs(Lh - 1)))
    # --- representation matrices
    IH = ctx.call('represent_fine', hs.represent_fine, truncate=False)
    if IH is RAISED():
        return False
    IM = m.represent_fine_hb() if m.L == Lh else None
    if IM is not None:
        ctx.check(IH.shape == IM.shape and maxabs(IH - IM) <= TOL, 'represent-fine-hb',
                  lambda: 'HB representation differs from the independent model by %.3g' % maxabs(IH - IM),
                  w.sig(what='represent'))
    if nfine * nd <= 600000:
        rk = np.linalg.matrix_rank(dense(IH))
        ctx.check(rk == nd, 'linear-independence', 'rank %d < numdofs %d' % (rk, nd), w.sig(what='rank'))
        ctx.count('rank.checked')
    IT = ctx.call('represent_fine(truncate)', hs.represent_fine, truncate=True)
    if IT is RAISED():
        return False
    ITd = dense(IT)
    ctx.check(ITd.min(initial=0.0) >= -1e-12, 'thb-nonnegative', lambda: 'min entry %.3g' % ITd.min(), w.sig(what='thb'))
    rs = ITd.sum(axis=1)
    ctx.check(np.abs(rs - 1.0).max(initial=0.0) <= TOL, 'thb-partition-of-unity',
              lambda: 'row sums deviate from 1 by %.3g' % np.abs(rs - 1.0).max(), w.sig(what='thb'))
    T = ctx.call('thb_to_hb', hs.thb_to_hb)
    Ti = ctx.call('hb_to_thb', hs.hb_to_thb)
    if T is RAISED() or Ti is RAISED():
        return False
    ctx.check(maxabs(T @ Ti - sp.identity(nd)) <= TOL and maxabs(Ti @ T - sp.identity(nd)) <= TOL,
              'thb-hb-inverse', lambda: 'T*Tinv-I = %.3g' % maxabs(T @ Ti - sp.identity(nd)), w.sig(what='thb'))
    if IM is not None and nfine * nd <= 400000:
        ITm = m.represent_fine_thb()
        ctx.check(IT.shape == ITm.shape and maxabs(IT - ITm) <= TOL, 'represent-fine-thb',
                  lambda: 'represent_fine(truncate=True) differs from the definition of the truncated basis by %.3g'
                  % (maxabs(IT - ITm) if IT.shape == ITm.shape else -1), w.sig(what='represent'))
    ctx.check(maxabs(IH @ T - IT) <= TOL, 'thb-same-space',
              lambda: 'represent_fine(truncate=True) != represent_fine(False) @ thb_to_hb by %.3g' % maxabs(IH @ T - IT),
              w.sig(what='thb'))
    # --- incidence matrix vs brute force
    Z = ctx.call('incidence_matrix', hs.incidence_matrix)
    if Z is RAISED():
        return False
    Zd = dense(Z)
    E = np.zeros((len(exp_f), len(exp_c)), dtype=int)
    cells_by_level = {}
    for j, (l, c) in enumerate(exp_c):
        cells_by_level.setdefault(l, []).append((j, c))
    for i, (k, f) in enumerate(exp_f):
        lo = [m.supp1d(k, dd)[0][f[dd]] for dd in range(dim)]
        hi = [m.supp1d(k, dd)[1][f[dd]] for dd in range(dim)]
        for l, lst in cells_by_level.items():
            if l < k:
                continue
            s = l - k
            for j, c in lst:
                if all(lo[dd] <= (c[dd] >> s) < hi[dd] for dd in range(dim)):
                    E[i, j] = 1
    ctx.check(Zd.shape == E.shape and np.array_equal(Zd, E), 'incidence',
              lambda: 'incidence matrix differs from brute force in %d entries' %
              (int((Zd != E).sum()) if Zd.shape == E.shape else -1), w.sig(what='incidence'))
    # --- support queries
    q = ctx.ch.stream('data')
    for _ in range(2):
        if not exp_f:
            break
        k, f = exp_f[q.choice(len(exp_f))]
        fs = ctx.call('function_support', hs.function_support, k, f)
        if fs is RAISED():
            return False
        t = m.knots[k]
        exp = tuple((t[dd][f[dd]], t[dd][f[dd] + cfg['degs'][dd] + 1]) for dd in range(dim))
        ctx.check(np.allclose(np.array(fs, float), np.array(exp, float), atol=1e-14 * cfg['pscale'], rtol=0), 'function-support',
                  lambda: '%s vs %s' % (fs, exp), w.sig(what='support'))
        l, c = exp_c[q.choice(len(exp_c))]
        ce = ctx.call('cell_extents', hs.cell_extents, l, c)
        if ce is RAISED():
            return False
        expc = tuple((m.mesh(l, dd)[c[dd]], m.mesh(l, dd)[c[dd] + 1]) for dd in range(dim))
        ctx.check(np.allclose(np.array(ce, float), np.array(expc, float), atol=1e-14 * cfg['pscale'], rtol=0), 'cell-extents',
                  lambda: '%s vs %s' % (ce, expc), w.sig(what='support'))
        # compute_supports of one function: all active cells overlapping its support
        funcs = [[] for _ in range(Lh)]
        funcs[k] = [f]
        cs = ctx.call('compute_supports', hs.compute_supports, funcs)
        if cs is RAISED():
            return False
        supp = m.fun_cells(k, f)
        expd = {}
        for (l2, c2) in exp_c:
            if l2 >= k:
                hit = tuple(ci >> (l2 - k) for ci in c2) in supp
            else:
                s = k - l2
                hit = any(tuple(ci >> s for ci in sc) == c2 for sc in supp)
            if hit:
                expd.setdefault(l2, set()).add(c2)
        got = {int(l2): set(v) for l2, v in dict(cs).items() if v}
        ctx.check(got == expd, 'compute-supports', lambda: 'function (%d,%s): %s vs %s' % (k, f, got, expd),
                  w.sig(what='support'))
    return True


# ----------------------------------------------------------------------------
# cache-filling queries

QUERIES = ['index_dirichlet', 'ravel_dirichlet', 'ravel_global', 'dirichlet_dofs', 'non_dirichlet_dofs',
           'smooth:new', 'smooth:trunc', 'smooth:func_supp', 'smooth:cell_supp', 'represent_fine',
           'thb_to_hb', 'incidence_matrix', 'boundary', 'virtual_space', 'vh_prolongators',
           'active_indices']


def do_query(w, name, o):
    ctx, hs = w.ctx, w.hs
    if name.startswith('smooth:'):
        return ctx.call(name, hs.indices_to_smooth, name.split(':')[1])
    if name in ('index_dirichlet', 'ravel_dirichlet', 'ravel_global'):
        return ctx.call(name, lambda: getattr(hs, name))
    if name == 'dirichlet_dofs':
        lv = o.choice(hs.numlevels)
        return ctx.call(name, hs.dirichlet_dofs, lv)
    if name == 'non_dirichlet_dofs':
        return ctx.call(name, hs.non_dirichlet_dofs)
    if name == 'represent_fine':
        return ctx.call(name, hs.represent_fine)
    if name == 'thb_to_hb':
        return ctx.call(name, hs.thb_to_hb)
    if name == 'incidence_matrix':
        return ctx.call(name, hs.incidence_matrix)
    if name == 'boundary':
        if w.cfg['dim'] < 2:
            return None
        faces = [(ax, s) for ax in range(w.cfg['dim']) for s in (0, 1)]
        return ctx.call(name, hs.boundary, faces[o.choice(len(faces))])
    if name == 'virtual_space':
        return ctx.call(name, hs.get_virtual_space, o.choice(hs.numlevels))
    if name == 'cell_props':
        pn = o.pick(['cell_dirichlet', 'cell_new', 'cell_trunc', 'cell_func_supp', 'cell_cell_supp', 'cell_global'])
        return ctx.call(pn, lambda: getattr(hs, pn))
    if name == 'vh_prolongators':
        return ctx.call(name, hs.virtual_hierarchy_prolongators)
    if name == 'active_indices':
        return ctx.call(name, lambda: (hs.active_indices(), hs.deactivated_indices()))
    raise AssertionError(name)


def canon(r):
    """Canonical, exactly comparable form of a query result."""
    from pyiga import hierarchical
    if r is None or isinstance(r, (bool, int, float, str)):
        return r
    if sp.issparse(r):
        r = r.toarray()
    if isinstance(r, np.ndarray):
        if r.dtype == object:
            return ('objarr', tuple(canon(x) for x in r.tolist()))
        return ('arr', r.shape, r.dtype.kind, np.ascontiguousarray(r).tobytes())
    if isinstance(r, (np.integer, np.floating, np.bool_)):
        return r.item()
    if isinstance(r, hierarchical.HSpace):
        return ('HSpace', r.dim, r.numlevels, bool(r.truncate),
                tuple(tuple(sorted(r.active_cells(l))) for l in range(r.numlevels)),
                tuple(tuple(sorted(r.active_functions(l))) for l in range(r.numlevels)),
                tuple(tuple(sorted(getattr(r, 'deactfun', None)[l])) if hasattr(r, 'deactfun') else () for l in range(r.numlevels)),
                tuple(tuple(kv.kv.tolist()) for kv in r.knotvectors(0)),
                repr(sorted(r.bdspecs)) if getattr(r, 'bdspecs', None) is not None else None)
    if isinstance(r, dict):
        return ('dict', tuple(sorted((repr(k), canon(v)) for k, v in r.items())))
    if isinstance(r, (set, frozenset)):
        return ('set', tuple(sorted(repr(canon(x)) for x in r)))
    if isinstance(r, (list, tuple)):
        return ('seq', tuple(canon(x) for x in r))
    return ('repr', repr(r))


def all_queries(hs, dim):
    """Every cache-backed / derived query with every argument, as (name, thunk)."""
    out = [(n, (lambda n=n: getattr(hs, n))) for n in ('index_dirichlet', 'ravel_dirichlet', 'ravel_global')]
    for lv in range(hs.numlevels):
        out.append(('dirichlet_dofs(%d)' % lv, lambda lv=lv: hs.dirichlet_dofs(lv)))
        out.append(('virtual_space(%d)' % lv, lambda lv=lv: hs.get_virtual_space(lv)))
    out.append(('non_dirichlet_dofs', hs.non_dirichlet_dofs))
    for st in ('new', 'trunc', 'func_supp', 'cell_supp'):
        out.append(('smooth:' + st, lambda st=st: hs.indices_to_smooth(st)))
    out.append(('represent_fine', hs.represent_fine))
    out.append(('thb_to_hb', hs.thb_to_hb))
    out.append(('incidence_matrix', hs.incidence_matrix))
    out.append(('vh_prolongators', hs.virtual_hierarchy_prolongators))
    out.append(('active_indices', lambda: (hs.active_indices(), hs.deactivated_indices())))
    out.append(('global_indices', lambda: (hs.global_indices() if hasattr(hs, 'global_indices') else None)))
    if dim >= 2:
        for ax in range(dim):
            for sd in (0, 1):
                out.append(('boundary(%d,%d)' % (ax, sd), lambda ax=ax, sd=sd: hs.boundary((ax, sd))))
    return out


def coherence_check(w):
    """History-only bug class: lazily filled caches must be invalidated by refine().  Every query on the
    object that lived through the history (with cache-filling queries between refinements, copies, flag
    flips) must equal the same query on a FRESH HSpace that replays only the refinement calls."""
    from pyiga import hierarchical
    ctx, hs, cfg = w.ctx, w.hs, w.cfg
    fresh = hierarchical.HSpace(w.kvs, truncate=cfg['truncate'], disparity=cfg['disparity'], bdspecs=cfg['bdspecs'])
    for rq in w.requests:
        if rq[0] == 'refine':
            fresh.refine(rq[1], truncate=True) if rq[2] else fresh.refine(rq[1])
        else:
            fresh.refine_region(rq[1], rq[2])
    fresh.truncate = hs.truncate
    for (name, thunk), (_, thunk2) in zip(all_queries(hs, cfg['dim']), all_queries(fresh, cfg['dim'])):
        a = ctx.call(name, thunk)
        if a is RAISED():
            return False
        try:
            b = thunk2()
        except Exception:       # the fresh object cannot answer either: nothing to compare
            ctx.count('coherence.fresh-raises')
            continue
        ctx.check(canon(a) == canon(b), 'stale-after-refine',
                  lambda: '%s on the object that lived through the history differs from the same query on a fresh '
                  'HSpace replaying only the refinements %s' % (name, w.history), w.sig(what='coherence', query=name.split('(')[0]))
    ctx.count('coherence.checked')
    return True


PREDICATES = [
    ('x<', lambda a: (lambda *x: x[0] < a)),
    ('x>', lambda a: (lambda *x: x[0] > a)),
    ('last<', lambda a: (lambda *x: x[-1] < a)),
    ('ball', lambda a: (lambda *x: sum((xi - 0.5) ** 2 for xi in x) < (0.15 + 0.5 * a) ** 2)),
    ('corner', lambda a: (lambda *x: all(xi < 0.2 + 0.6 * a for xi in x))),
]


def region_marks(w, lv, pred):
    """Model of refine_region: active cells of level lv whose centre (passed
    as x = LAST parameter axis first, the pyiga convention) satisfies pred."""
    m = w.model
    out = []
    for c in sorted(m.active_cells(lv)):
        ctr = [0.5 * (m.mesh(lv, d)[c[d]] + m.mesh(lv, d)[c[d] + 1]) for d in range(m.dim)]
        if pred(*reversed(ctr)):
            out.append(c)
    return out


# ----------------------------------------------------------------------------

def run_case(ctx):
    cfg = gen_config(ctx)
    ctx.log({'config': cfg_desc(cfg)})
    w = World(ctx, cfg)
    hs, m = w.hs, w.model
    # harness sanity: the model's notion of dyadic refinement is pyiga's
    assert all(np.array_equal(hs.knotvectors(0)[d].kv, m.knots[0][d]) for d in range(cfg['dim']))
    prop = ctx.prop
    o = ctx.ch.stream('ops')
    ctx.count('cfg.dim%d' % cfg['dim'])
    if cfg['pscale'] != 1.0:
        ctx.count('cfg.parameter-domain-scale.%g' % cfg['pscale'])
    ctx.count('cfg.%s' % ('thb' if cfg['truncate'] else 'hb'))
    ctx.count('cfg.disparity.%s' % cfg['disparity'])
    ctx.count('cfg.bdspecs.%s' % ('none' if cfg['bdspecs'] is None else len(cfg['bdspecs'])))
    weights = {
        'C04': [('refine', 8), ('query', 6), ('refine_region', 2), ('flip', 1), ('copy', 2), ('switch', 2)],
        'C05': [('refine', 8), ('query', 3), ('snapshot', 4), ('refine_region', 1), ('flip', 1)],
        'C03': [('refine', 8), ('query', 3), ('assemble', 3), ('flip', 1), ('refine_region', 1)],
        'C11': [('refine', 8), ('query', 6), ('refine_region', 1), ('flip', 1), ('copy', 1), ('switch', 1)],
    }[prop]
    if prop == 'C04' and ctx.ch.stream('cfg').chance(30):
        check_c04(w, deep=False)       # the empty history
    aux = None
    if prop == 'C03':
        from . import hsim_c03
        aux = hsim_c03.State(w)
    script = []
    deep_ok = cfg['disparity'] in (2, 3) and (cfg['dim'] == 1 or (
        prop == 'C04' and cfg['dim'] == 2 and cfg['disparity'] == 2 and max(cfg['ncoarse']) <= 3 and max(cfg['degs']) <= 2))
    if deep_ok and o.chance(60):
        script = deep_script(w, o)
        ctx.count('history.deep-multilevel-prefix')
    elif cfg.get('wide') and cfg['disparity'] != np.inf and o.choice(2):
        script = adaptive_script(w, o)
        ctx.count('history.adaptive-loop-prefix')
    for step in range(max(cfg['nops'], len(script) + 1) if script else cfg['nops']):
        forced = script.pop(0) if script else None
        hs, m = w.hs, w.model
        op = forced[0] if forced else o.weighted(weights)
        cache_was_filled = w.queried_since_refine
        if op == 'refine' or (op == 'refine_region' and False):
            marks, kinds = forced[1](w, o) if forced else marks_from_choices(w, o)
            if marks is None:
                ctx.count('op.refine.skipped.maxlevel')
                continue
            ctx.log(['refine', {str(l): [list(c) for c in cs] for l, cs in marks.items()},
                     {str(l): k for l, k in kinds.items()}])
            ctx.count('op.refine')
            for k in kinds.values():
                ctx.count('marks.as.' + k)
            if len(marks) > 1:
                ctx.count('op.refine.multilevel')
            if w.queried_since_refine:
                ctx.count('probe.refine.after.cache.fill')
            mt = bool(cfg['disparity'] != np.inf and (cfg['mark_truncate_always'] or o.chance(10)))
            if mt:
                ctx.trace[-1].append('mark-truncate')
                ctx.count('op.refine.mark-truncate')
            if not do_refine(w, marks, kinds, mark_truncate=mt):
                return
        elif op == 'refine_region':
            levels = [l for l in range(min(m.L, cfg['maxlevel'])) if m.active_cells(l)]
            if not levels:
                continue
            lv = levels[o.choice(len(levels))]
            pname, pmk = PREDICATES[o.choice(len(PREDICATES))]
            a = (1 + o.choice(9)) / 10.0
            pred = (lambda *x, _p=pmk(a), _s=cfg['pscale']: _p(*(xi / _s for xi in x)))
            cells = region_marks(w, lv, pred)
            if not cells:
                ctx.count('op.refine_region.skipped.empty')
                continue
            ctx.log(['refine_region', lv, pname, a])
            ctx.count('op.refine_region')
            if not do_refine(w, {lv: cells}, {lv: 'tuple'}, via='region', region=(lv, pred)):
                return
        elif op == 'query':
            name = forced[1] if forced else QUERIES[o.choice(len(QUERIES))]
            ctx.log(['query', name])
            ctx.count('op.query')
            r = do_query(w, name, o)
            if r is RAISED():
                return
            w.queried_since_refine = True
            w.nqueries += 1
            if not structure_matches(w, prop == 'C04'):
                if prop != 'C04':
                    ctx.count('abandoned.structure-mismatch')
                return
            continue
        elif op == 'flip':
            w.hs.truncate = not w.hs.truncate
            w.truncate = w.hs.truncate
            ctx.log(['flip_truncate', w.truncate])
            ctx.count('op.flip')
        elif op == 'copy':
            cp = ctx.call('copy', hs.copy)
            if cp is RAISED():
                return
            saved = {f: getattr(w, f) for f in BRANCH_FIELDS}
            saved.update(model=m.copy(), history=list(w.history), requests=list(w.requests))
            w.originals.append(saved)
            w.hs = hs = cp
            ctx.log(['copy_and_continue'])
            ctx.count('op.copy')
            continue
        elif op == 'switch':
            # branching histories: go on with an ORIGINAL that was copied earlier; the copy stays alive as a
            # branch of its own (both may add levels, fill caches, ...; they must not share mutable state)
            if not w.originals:
                continue
            i = o.choice(len(w.originals))
            cur = {f: getattr(w, f) for f in BRANCH_FIELDS}
            for f, v in w.originals[i].items():
                setattr(w, f, v)
            w.originals[i] = cur
            ctx.log(['switch_branch', i])
            ctx.count('op.switch-branch')
            continue
        elif op == 'snapshot':
            cp = ctx.call('copy', hs.copy)
            if cp is RAISED():
                return
            w.snapshots.append((cp, m.copy(), step))
            ctx.log(['snapshot'])
            ctx.count('op.snapshot')
            continue
        elif op == 'assemble':
            ctx.log(['assemble'])
            if not aux.check(step):
                return
            continue
        # ---- after a state-changing op
        if cache_was_filled and prop in ('C04', 'C11') and op in ('refine', 'refine_region') and o.chance(60):
            # stale caches are transient (a later refinement may clear them again): look right now
            ctx.count('coherence.checked.right-after-refine')
            if not coherence_check(w):
                return
        if prop == 'C04':
            big = int(np.prod(m.nfuncs(max(0, m.L - 1))))
            if not check_c04(w, deep=(big <= 1600)):
                return
        else:
            if not structure_matches(w, False):
                ctx.count('abandoned.structure-mismatch')
                return
    # ---- end of history
    ctx.state = (cfg['dim'], tuple(cfg['degs']), tuple(cfg['ncoarse']), cfg['knotkind'], m.state_key())
    ctx.nontrivial = bool(w.nrefine >= 2 and (w.query_between or w.multilevel))
    ctx.sim_time = float(len(ctx.trace) - 1)
    ctx.interleaving = [t[0] if isinstance(t, list) else 'cfg' for t in ctx.trace]      # order of refinements/queries/copies
    if w.query_between:
        ctx.count('runs.query.between.refinements')
    # originals must be untouched by what happened to their copies
    for saved in w.originals:
        w2 = World.__new__(World)
        w2.__dict__.update(w.__dict__)
        w2.__dict__.update(saved)
        if not structure_matches(w2, prop == 'C04'):
            return
        if prop == 'C04':
            big2 = int(np.prod(w2.model.nfuncs(max(0, w2.model.L - 1))))
            if not check_c04(w2, deep=(big2 <= 1600)):
                return
        ctx.count('copy.isolation.checked')
    if w.nqueries and w.nrefine and prop in ('C04', 'C11'):
        if not coherence_check(w):
            return
    if prop == 'C04':
        return
    if not structure_matches(w, False):
        ctx.count('abandoned.structure-mismatch')
        return
    if prop == 'C05':
        from . import hsim_c05
        hsim_c05.final_checks(w)
    elif prop == 'C03':
        aux.check(cfg['nops'])
    elif prop == 'C11':
        from . import hsim_c11
        hsim_c11.final_checks(w)


def main_check(prop, tier, seed, cfg, args):
    from . import runner
    extra = None
    if prop == 'C03':
        from . import hsim_c03
        extra = hsim_c03.precompile()
    return runner.run_check(prop, tier, seed, extra_evidence=extra, **cfg)
