"""C11 invariants on simulated refinement histories: smoothing sets, fixed
point and energy monotonicity of the local multigrid cycle, stopping rules of
the drivers (hierarchical clauses only)."""
import contextlib
import io

import numpy as np
import scipy.sparse as sp
import scipy.sparse.linalg

from .hsim import RAISED, dense, maxabs

STRATEGIES = ('new', 'trunc', 'func_supp', 'cell_supp')
SMOOTHERS = ('gs', 'forward_gs', 'backward_gs', 'symmetric_gs', 'exact')


def virtual_numbering(m, lv):
    """list of (level, multi-index) in the numbering of virtual level lv."""
    out = []
    for i in range(lv + 1):
        act, de = m.functions(i)
        out += [(i, f) for f in sorted(act)]
        if i == lv:
            out += [(i, f) for f in sorted(de)]
    return out


def is_dirichlet(m, cfg, l, f):
    n = m.nfuncs(l)
    for (ax, side) in (cfg['bdspecs'] or []):
        if f[ax] == (0 if side == 0 else n[ax] - 1):
            return True
    return False


def fine_operator(w, c):
    from pyiga import assemble
    hs = w.hs
    kvs = hs.knotvectors(hs.numlevels - 1)
    M = [assemble.bsp_mass_1d(kv) for kv in kvs]
    K = [assemble.bsp_stiffness_1d(kv) for kv in kvs]
    dim = len(kvs)

    def kron(ms):
        A = ms[0]
        for B in ms[1:]:
            A = sp.kron(A, B, format='csr')
        return A
    A = kron(M)
    for d in range(dim):
        A = A + c * kron([K[i] if i == d else M[i] for i in range(dim)])
    return A.tocsr()


def final_checks(w):
    ctx, hs, m, cfg = w.ctx, w.hs, w.model, w.cfg
    from pyiga import solvers
    L = hs.numlevels
    if m.L != L:
        ctx.count('skipped.level-count-differs')
        return
    q = ctx.ch.stream('data')
    sig = lambda what, **kw: dict(what=what, **kw)     # noqa
    nd = hs.numdofs
    # ---- Dirichlet dof sets per virtual level (also exercises the caches filled earlier in the history)
    numb = [virtual_numbering(m, lv) for lv in range(L)]
    dirs = [set(i for i, (l, f) in enumerate(numb[lv]) if is_dirichlet(m, cfg, l, f)) for lv in range(L)]
    for lv in range(L):
        dd = ctx.call('dirichlet_dofs', hs.dirichlet_dofs, lv)
        if dd is RAISED():
            return
        got = [int(i) for i in dd]
        ctx.check(len(set(got)) == len(got) and set(got) == dirs[lv], 'dirichlet-dofs',
                  lambda: 'virtual level %d: dirichlet_dofs %s, geometry says %s (history %s)'
                  % (lv, sorted(got)[:12], sorted(dirs[lv])[:12], w.history), sig('dirichlet'))
    nd_free = ctx.call('non_dirichlet_dofs', hs.non_dirichlet_dofs)
    if nd_free is RAISED():
        return
    ctx.check(sorted(int(i) for i in nd_free) == sorted(set(range(nd)) - dirs[L - 1]), 'non-dirichlet-dofs', '',
              sig('dirichlet'))
    free = np.array(sorted(set(range(nd)) - dirs[L - 1]), dtype=int)
    # ---- smoothing sets
    inds_by_strategy = {}
    for strat in STRATEGIES:
        inds = ctx.call('indices_to_smooth', hs.indices_to_smooth, strat)
        if inds is RAISED():
            return
        inds_by_strategy[strat] = inds
        ok_len = len(inds) == L
        ctx.check(ok_len, 'smoothing-sets-count', '%d sets for %d levels' % (len(inds), L), sig('smoothing', strategy=strat))
        if not ok_len:
            continue
        for lv in range(L):
            got = [int(i) for i in inds[lv]]
            new = set(i for i, (l, f) in enumerate(numb[lv]) if l == lv) - dirs[lv]
            gs = set(got)
            ctx.check(len(gs) == len(got) and all(0 <= i < len(numb[lv]) for i in got), 'smoothing-set-valid',
                      lambda: 'strategy %s level %d: duplicate or out-of-range indices' % (strat, lv),
                      sig('smoothing', strategy=strat))
            ctx.check(new <= gs, 'smoothing-set-misses-new-dofs',
                      lambda: 'strategy %s, virtual level %d: newly added dofs %s are not smoothed (history %s)'
                      % (strat, lv, sorted(new - gs)[:8], w.history), sig('smoothing', strategy=strat))
            ctx.check(not (gs & dirs[lv]), 'smoothing-set-has-dirichlet',
                      lambda: 'strategy %s, virtual level %d: Dirichlet dofs %s are smoothed (history %s)'
                      % (strat, lv, sorted(gs & dirs[lv])[:8], w.history), sig('smoothing', strategy=strat))
    ctx.count('smoothing.sets.checked')
    if len(free) == 0 or nd > 900:
        ctx.count('skipped.multigrid.size')
        return
    # ---- operator, right-hand side, exact solution of the Dirichlet-restricted system
    rng = np.random.RandomState(q.choice(2 ** 16))
    c = [0.0, 0.01, 1.0][q.choice(3)]
    I = ctx.call('represent_fine', hs.represent_fine)
    if I is RAISED():
        return
    Af = fine_operator(w, c)
    A = (I.T @ Af @ I).tocsr()
    A = ((A + A.T) * 0.5).tocsr()
    # the clauses hold for EVERY SPD system, also badly scaled ones (SI units on a micro-scale domain, a tiny
    # diffusion coefficient, ...): scale operator and right-hand side by a seeded factor
    scal = [1.0, 1.0, 1e-6, 1e-13, 1e-16, 1e8][q.choice(6)]
    ctx.count('operator.scale.%g' % scal)
    A = (A * scal).tocsr()
    f = rng.uniform(-1, 1, nd) * scal
    g = np.zeros(nd)
    dl = np.array(sorted(dirs[L - 1]), dtype=int)
    if len(dl) and q.choice(2):
        g[dl] = rng.uniform(-1, 1, len(dl))
    for round_ in range(2):
        if round_ == 1:
            # the SAME matrix object is changed in place (a time step, a new coefficient, a rescaling: A.data is
            # overwritten, the sparsity pattern stays) and the multigrid cycle is set up again with the same space
            # object: nothing the library remembered about the old values may be used
            if q.choice(5) >= 2:
                break
            fac = [40.0, 7.0, 300.0][q.choice(3)]
            coo = A.tocoo()
            if q.choice(2):
                d = np.exp(rng.uniform(-1, 1, nd)) * np.sqrt(fac)
            else:
                d = np.full(nd, np.sqrt(fac))
            A.data *= d[coo.row] * d[coo.col]
            ctx.log(['operator-changed-in-place', fac])
            ctx.count('operator.changed.in-place')
        xs = g.copy()
        Aff = A[free][:, free].tocsc()
        xs[free] = scipy.sparse.linalg.spsolve(Aff, f[free] - (A[free][:, dl] @ g[dl] if len(dl) else 0.0))
        if not np.all(np.isfinite(xs)):
            ctx.count('skipped.singular')
            return

        def enorm(e):
            ef = e[free]
            return float(np.sqrt(max(0.0, ef @ (Aff @ ef))))

        Ps = ctx.call('virtual_hierarchy_prolongators', hs.virtual_hierarchy_prolongators)
        if Ps is RAISED():
            return
        thb3 = bool(hs.truncate and L >= 3)
        combos = [(s, sm) for s in STRATEGIES for sm in SMOOTHERS]
        ncomb = 4 if ctx.tier == 'quick' else 8
        chosen = [combos[i] for i in q.sample_positions(len(combos), ncomb)]
        for strat, sm in chosen:
            steps = 1 + q.choice(2)
            step = ctx.call('local_mg_step', solvers.local_mg_step, hs, A, f, Ps, inds_by_strategy[strat], sm, steps)
            if step is RAISED():
                return
            s = sig('multigrid', strategy=strat, smoother=sm, thb3=thb3)
            # fixed point
            x1 = ctx.call('mg_step(x*)', step, xs.copy())
            if x1 is RAISED():
                return
            scale = max(1.0, np.abs(xs).max())
            ctx.check(np.abs(x1 - xs).max() <= 1e-8 * scale, 'mg-fixed-point',
                      lambda: '%s/%s x%d: exact solution moves by %.3g (numdofs %d, %d levels, truncate=%s)'
                      % (strat, sm, steps, np.abs(x1 - xs).max(), nd, L, hs.truncate), s)
            # Dirichlet values untouched, energy does not increase with exact subspace solves
            x0 = g.copy()
            x0[free] = rng.uniform(-1, 1, len(free))
            x1 = ctx.call('mg_step(x)', step, x0.copy())
            if x1 is RAISED():
                return
            if len(dl):
                ctx.check(np.array_equal(x1[dl], g[dl]), 'mg-touches-dirichlet',
                          lambda: '%s/%s changed Dirichlet dofs' % (strat, sm), s)
            if sm == 'exact':
                e0, e1 = enorm(xs - x0), enorm(xs - x1)
                ctx.check(e1 <= e0 * (1 + 1e-9) + 1e-12 * np.sqrt(scal), 'mg-energy-increase',
                          lambda: '%s/exact: energy error %.6g -> %.6g (numdofs %d, %d levels, truncate=%s)'
                          % (strat, e0, e1, nd, L, hs.truncate), s)
            ctx.count('mg.step.checked')
        # ---- stopping rules of the drivers
        strat, sm = combos[q.choice(len(combos))]
        maxiter = [1, 2, 5, 30][q.choice(4)]
        tol = [1e-1, 1e-3, 1e-8][q.choice(3)]
        calls = {'n': 0}
        step = solvers.local_mg_step(hs, A, f, Ps, inds_by_strategy[strat], sm, 1)

        def counted(x):
            calls['n'] += 1
            return step(x)
        x0 = g.copy()
        buf = io.StringIO()
        with contextlib.redirect_stdout(buf):
            r = ctx.call('iterative_solve', solvers.iterative_solve, counted, A, f, x0=x0.copy(), active_dofs=free,
                         tol=tol, maxiter=maxiter)
        if r is RAISED():
            return
        x, its = r
        res0 = np.linalg.norm((f - A @ x0)[free])
        res = np.linalg.norm((f - A @ x)[free])
        s = sig('driver', fn='iterative_solve')
        if its == np.inf:
            ctx.check(calls['n'] == maxiter, 'driver-inf-without-maxiter',
                      lambda: 'returned inf after %d of %d allowed steps' % (calls['n'], maxiter), s)
            ctx.count('driver.hit.maxiter')
        else:
            ctx.check(its == calls['n'], 'driver-iteration-count', lambda: 'reported %r iterations, performed %d'
                      % (its, calls['n']), s)
            ctx.check(its <= maxiter, 'driver-exceeds-maxiter', '%r > %d' % (its, maxiter), s)
            ctx.check(res < tol * res0 * (1 + 1e-9), 'driver-stops-early',
                      lambda: 'stopped after %r iterations with residual reduction %.3g >= tol %.3g'
                      % (its, res / res0, tol), s)
            ctx.count('driver.converged')
        # solve_hmultigrid (zero start, Dirichlet values must be zero for its residual rule)
        if not np.any(g):
            with contextlib.redirect_stdout(buf):
                r = ctx.call('solve_hmultigrid', solvers.solve_hmultigrid, hs, A, f, strategy=strat, smoother=sm,
                             tol=tol, maxiter=maxiter)
            if r is RAISED():
                return
            x, its = r
            res0 = np.linalg.norm(f[free])
            res = np.linalg.norm((f - A @ x)[free])
            s = sig('driver', fn='solve_hmultigrid')
            if its == np.inf:
                ctx.count('hmultigrid.hit.maxiter')
            else:
                ctx.check(its <= maxiter and res < tol * res0 * (1 + 1e-9), 'hmultigrid-stops-early',
                          lambda: 'reported %r iterations, residual reduction %.3g, tol %.3g' % (its, res / res0, tol), s)
                ctx.count('hmultigrid.converged')
