"""formsim -- C13: form-compilation caching under arbitrary request histories.

Real: VForm.hash / finalize / code generation, the in-process cache dictionary
of pyiga/compile.py with its pre-seeded entries, the on-disk naming in
compile_cython_module.  Seam: `_compile_cython_module_nocache` and the import
system are replaced by a fake disk (module name -> source) whose modules carry
the *provenance* of the request that built them.  A run = a seeded request
history over a pool of form specifications that contains one-token mutation
neighbours (operator, function name, constant, shape, derivative, measure,
boundary flag, arity, component count, space index, updatable/physical flag,
on-demand mode), with repeats, re-submission of the same (already finalised)
VForm object, compile_vforms batches and process restarts (fresh instance of
compile.py, same disk).  Oracle: the assembler returned for a request was built
for an equal specification, or for one whose freshly generated source is
identical.
"""
import hashlib
import importlib.util
import json
import os
import re
import subprocess
import sys as _sys
import types

from . import env

env.setup_import()

RULE = {'C13': 'a run = seeded pool of 2-8 form specs (base form + one-token mutation neighbours + predefined forms) '
        'and a seeded history of 5-40 requests (compile_vform with both on_demand values, re-submission of the '
        'same VForm object, compile_vforms batches, process restarts with a shared disk cache); every returned '
        'assembler is checked for provenance.  non-trivial = the history requests at least one mutation-neighbour '
        'pair in the same process instance; distinct = digest of (pool, history).  The shipped assemblers.pyx / '
        'genericasm.pxi are regenerated in fresh interpreters under several PYTHONHASHSEED values with and without '
        'ASLR and compared (coverage.static)'}
REAL_VS_STUB = {'C13': {
    'real': ['VForm.hash, Expr.hash/hash_key, VForm.finalize, codegen AsmGenerator/generate_generic',
             'compile.compile_vform / compile_vforms / compile_cython_module (in-process cache, pre-seeding, SHAKE naming)'],
    'stub': ['_compile_cython_module_nocache and importlib.import_module: fake disk that records the source and tags the '
             'classes with the request that built them (Cython/gcc are exercised by C20 Layer B and C03/C08)'],
    'model': ['no cache: canonical (spec, on_demand) per request; sharing is legal iff specs are equal or fresh sources identical']}}
ASSUMPTIONS = {'C13': ['forms come from a template grammar covering every attribute the property lists; not the full C01 generator',
                       'equality of generated code is decided on fresh generations in the same interpreter']}
SHRINK_ORDER = ['req', 'pool', 'cfg']

PREDEF = []     # (spec, class name), filled lazily


def preimport():
    import pyiga.compile, pyiga.vform, pyiga.assemblers  # noqa


# ----------------------------------------------------------------------------
# form specifications

FUNCS = ['sin', 'cos', 'exp', 'tan', 'sqrt', 'log']


def normalise(spec):
    """Reset every knob that has no influence on the form that build() constructs, so that two
    specifications are equal iff they describe the same form."""
    if spec.get('k') != 'tpl':
        return spec
    n = dict(spec)
    if not n.get('fn'):
        n.update(in_shape=[], phys=False, upd=False, in_deriv=False, in_comp=0, in_dpara=False)
    if not n.get('in_deriv'):
        n['in_dpara'] = False
    if not n.get('in_shape'):
        n['in_comp'] = 0
    if n.get('comps'):
        n.update(dtimes=0, dax=0, dpara=False, let=None)
        if n['arity'] != 2:
            n['vop'] = ''
    else:
        n['vop'] = ''
        if not n.get('dtimes'):
            n.update(dax=0, dpara=False)
    if not n.get('op'):
        n.update(c2=0.0, let=None)
    if n.get('let') and (n['arity'] != 2 or n['boundary'] or n['surface'] or n.get('comps')):
        n['let'] = None
    if n.get('shadow') and (n.get('meas') != 'dx' or n.get('boundary') or n.get('surface')):
        n['shadow'] = None
    if not n.get('mat_kind'):
        n.update(mat_shape=[2, 3], mat_ij=[0, 0])
    if n.get('tens') and (n['dim'] < 2 or n.get('boundary') or n.get('surface') or n['tens'] not in tens_names(n['dim'])):
        n['tens'] = None
    if n['arity'] != 2:
        n['spaces'] = [0, 0]
    return n


def canon(spec):
    return json.dumps(normalise(spec), sort_keys=True)


def predef_table():
    if not PREDEF:
        for dim in (2, 3):
            nD = '%dD' % dim
            PREDEF.extend([
                ({'k': 'predef', 'fn': 'mass_vf', 'dim': dim}, 'MassAssembler' + nD),
                ({'k': 'predef', 'fn': 'stiffness_vf', 'dim': dim}, 'StiffnessAssembler' + nD),
                ({'k': 'predef', 'fn': 'heat_st_vf', 'dim': dim}, 'HeatAssembler_ST' + nD),
                ({'k': 'predef', 'fn': 'wave_st_vf', 'dim': dim}, 'WaveAssembler_ST' + nD),
                ({'k': 'predef', 'fn': 'divdiv_vf', 'dim': dim}, 'DivDivAssembler' + nD),
                ({'k': 'predef', 'fn': 'L2functional_vf', 'dim': dim}, 'L2FunctionalAssembler' + nD),
                ({'k': 'predef', 'fn': 'L2functional_vf', 'dim': dim, 'physical': True}, 'L2FunctionalAssemblerPhys' + nD),
            ])
    return PREDEF


TENS = ['dotJb0', 'dotJTb0', 'dotJb1', 'trJ', 'detJ', 'invJ01', 'invJT01', 'minor01', 'minor10', 'outer01', 'outer10',
        'JJ01', 'JTJ01', 'JJT01', 'cross0', 'cross1',
        # scalar (op) tensor in both operand orders, the un-indexed tensor result kept in a let-variable
        'let_s-J', 'let_J-s', 'let_s/J', 'let_J/s', 'let_s*J', 'let_s+J', 's-J01', 'J-s01']


# the closest neighbour of each variant (operand order, transposition, index order): drawn as a mutation of its own,
# because a PARTICULAR pair among 24 variants is otherwise requested together once in some thousand runs
TENS_TWIN = {}
for _a, _b in [('let_s-J', 'let_J-s'), ('let_s/J', 'let_J/s'), ('s-J01', 'J-s01'), ('dotJb0', 'dotJTb0'), ('invJ01', 'invJT01'),
               ('minor01', 'minor10'), ('outer01', 'outer10'), ('JTJ01', 'JJT01'), ('cross0', 'cross1'), ('let_s*J', 'let_s+J'),
               ('trJ', 'detJ'), ('dotJb1', 'JJ01')]:
    TENS_TWIN[_a], TENS_TWIN[_b] = _b, _a


def tens_names(dim):
    return [t for t in TENS if dim == 3 or not t.startswith('cross')]


def tens_factor(V, name, dim):
    from pyiga.vform import dot, tr, det, inv, minor, outer, cross
    J = V.Jac
    bv = (lambda: V.parameter('bv', shape=(dim,)))
    return {
        'dotJb0': lambda: dot(J, bv())[0], 'dotJTb0': lambda: dot(J.T, bv())[0], 'dotJb1': lambda: dot(J, bv())[1],
        'trJ': lambda: tr(J), 'detJ': lambda: det(J), 'invJ01': lambda: inv(J)[0, 1], 'invJT01': lambda: inv(J).T[0, 1],
        'minor01': lambda: minor(J, 0, 1), 'minor10': lambda: minor(J, 1, 0),
        'outer01': lambda: outer(bv(), J[:, 0])[0, 1], 'outer10': lambda: outer(bv(), J[:, 0])[1, 0],
        'JJ01': lambda: dot(J, J)[0, 1], 'JTJ01': lambda: dot(J.T, J)[0, 1], 'JJT01': lambda: dot(J, J.T)[0, 1],
        'cross0': lambda: cross(bv(), J[:, 0])[0], 'cross1': lambda: cross(bv(), J[:, 0])[1],
        'let_s-J': lambda: V.let('tb', 1.5 - J)[0, 1], 'let_J-s': lambda: V.let('tb', J - 1.5)[0, 1],
        'let_s/J': lambda: V.let('tb', 1.5 / (J + 3.0))[0, 1], 'let_J/s': lambda: V.let('tb', (J + 3.0) / 1.5)[0, 1],
        'let_s*J': lambda: V.let('tb', 1.5 * J)[0, 1], 'let_s+J': lambda: V.let('tb', 1.5 + J)[0, 1],
        's-J01': lambda: (1.5 - J)[0, 1], 'J-s01': lambda: (J - 1.5)[0, 1],
    }[name]()


def build(spec, incremental=False):
    """A fresh VForm for the specification.  incremental=True: the two terms are added one after the
    other with a hash() query in between (returns None if the form refuses to be extended)."""
    from pyiga import vform
    from pyiga.vform import VForm, grad, inner, div, dx, ds
    if spec['k'] == 'predef':
        kw = {kk: spec[kk] for kk in ('physical', 'updatable') if kk in spec}
        return getattr(vform, spec['fn'])(spec['dim'], **kw)
    # knobs without influence are reset first: e.g. a let-variable that no term uses would be DECLARED by the code below
    # and the pinned tree refuses forms with an unused let-variable (KeyError in VForm.hash) -- the spec would be dropped
    spec = normalise(spec)
    dim = spec['dim']
    V = VForm(dim, geo_dim=(dim + 1 if spec['surface'] else None), boundary=spec['boundary'], arity=spec['arity'],
              spacetime=bool(spec.get('st')))
    comps = spec['comps']
    nc = (comps, comps) if comps else (None, None)
    bfs = V.basisfuns(components=nc, spaces=tuple(spec['spaces']))
    if spec['arity'] == 2:
        u, v = bfs
    else:
        u, v = None, bfs
    coef = vform.as_expr(spec['c'])
    if spec['fn']:
        shape = tuple(spec['in_shape'])
        f = V.input('f', shape=shape, physical=spec['phys'], updatable=spec['upd'])
        arg = f if shape == () else f[spec.get('in_comp', 0)]
        if spec.get('in_deriv'):
            # derivative of the input field: physical (default) or parametric
            arg = arg.dx(0, parametric=True) if spec.get('in_dpara') else arg.dx(0)
        coef = coef * (getattr(vform, spec['fn'])(arg) if spec['fn'] != 'id' else arg)
    if spec['par']:
        coef = coef * V.parameter('a')
    if spec.get('shadow') and spec['meas'] == 'dx' and not spec['boundary'] and not spec['surface']:
        # a user variable that SHADOWS a predefined one by name (a weighted measure): finalize() refers to W by name
        # when it expands dx.  (On the pinned tree such a form is refused with KeyError and the spec is dropped as
        # invalid; a tree that accepts it must not confuse it with the unweighted form.)
        from pyiga.vform import det
        V.let('W', V.GaussWeight * abs(det(V.Jac)) * vform.as_expr(spec['shadow']))
    if spec.get('upar'):
        # a parameter that is declared but never used by any expression (it still appears in the constructor
        # signature, in parameters() and in the layout of the constants array of the generated class)
        V.parameter(spec['upar']['name'], shape=tuple(spec['upar']['shape']))
    if spec.get('nlet'):
        # a let-variable that is reached only THROUGH another let-variable
        k1 = V.let('k1', vform.as_expr(spec['nlet']['v']) * V.Jac[0, 0])
        k2 = V.let('k2', 2.0 * k1)
        coef = coef * k2
    if normalise(spec).get('tens'):
        # a scalar factor built from TENSOR-valued expressions (matrix-vector and matrix-matrix products, transposes,
        # slices, inverse, minors, determinant, trace, outer and cross products); neighbours differ in one token
        coef = coef * tens_factor(V, spec['tens'], dim)
    if spec.get('mat_kind'):
        # one entry of a non-square matrix-valued parameter / input field
        shp = tuple(spec.get('mat_shape', [2, 3]))
        Bm = V.parameter('Bm', shape=shp) if spec['mat_kind'] == 'param' else V.input('G', shape=shp)
        i, j = spec['mat_ij']
        coef = coef * Bm[i, j]

    def D(w):
        if spec['dtimes'] == 0:
            return w
        return w.dx(spec['dax'], times=spec['dtimes'], parametric=spec['dpara'])
    if comps:
        w = vform.as_vector([0.5] * comps)
        uu = {'': u, '+': (u + w) if u is not None else None, '-': (u - w) if u is not None else None}[spec.get('vop', '')]
        main = inner(uu, v) if u is not None else inner(v, vform.as_vector([1.0] * comps))
        second = div(u) * div(v) if u is not None else div(v)
    else:
        main = D(u) * v if u is not None else D(v)
        second = inner(grad(u), grad(v)) if u is not None else v.dx(0)
        if spec.get('let') and u is not None and not spec['boundary'] and not spec['surface']:
            # a named (let) matrix variable, stored symmetrically or not
            from pyiga.vform import dot
            Bv = V.let(spec['let']['name'], dot(V.JacInv, V.JacInv.T), symmetric=spec['let']['sym'])
            second = Bv.dot(grad(u, parametric=True)).dot(grad(v, parametric=True))
    meas = {'dx': dx, 'ds': ds, 'none': None}[spec['meas']]

    def M(e):
        return e * meas if meas is not None else e
    e = M(coef * main)
    if spec['op']:
        t2 = M(spec['c2'] * second)
        if incremental:
            V.add(e)
            V.hash()
            try:
                V.add(t2 if spec['op'] == '+' else -t2)
            except RuntimeError:
                return None         # "can no longer modify this VForm"
            return V
        e = {'+': e + t2, '-': e - t2}[spec['op']]
    V.add(e)
    return V


def base_spec(s):
    dim = s.pick([2, 3, 1])
    comps = s.weighted([(0, 5), (2 if dim != 3 else 3, 1)]) if dim >= 2 else 0
    fn = s.weighted([('', 2), ('sin', 2), ('cos', 1), ('exp', 1), ('id', 1), ('sqrt', 1)])
    kind = s.weighted([('volume', 6), ('nomeasure', 2), ('boundary', 1), ('boundary-nomeasure', 1)])
    if dim == 1 and kind.startswith('boundary'):
        kind = 'nomeasure'
    sp = {'k': 'tpl', 'dim': dim, 'surface': False, 'boundary': kind.startswith('boundary'), 'arity': 2, 'comps': comps,
            'spaces': [0, 0],
            'c': s.pick([2.0, 3.0, 0.5, 1e-13, -1.0, -1.0]), 'fn': fn, 'in_shape': s.pick([[], [], [2]]), 'phys': bool(s.choice(2)), 'upd': False,
            'in_deriv': bool(s.choice(3) == 0), 'in_dpara': bool(s.choice(2)), 'in_comp': 0, 'vop': s.pick(['', '', '+']),
            'let': s.pick([None, None, {'name': 'B', 'sym': True}, {'name': 'B', 'sym': False}]), 'st': False,
            'mat_kind': s.pick(['', '', '', 'param', 'input']), 'mat_shape': s.pick([[2, 3], [3, 2], [2, 2]]),
            'mat_ij': [s.choice(2), s.choice(2)], 'nlet': s.pick([None, None, None, {'v': 1.5}]),
            'upar': s.pick([None, None, None, {'name': 'zz', 'shape': []}, {'name': 'zz', 'shape': [2]}]),
            'shadow': s.pick([None] * 9 + [2.0]),
            'tens': s.pick([None, None] + tens_names(dim)) if dim >= 2 else None,
            'par': bool(s.choice(2)), 'dax': s.choice(dim), 'dtimes': 0 if comps else s.choice(3), 'dpara': False,
            'meas': {'volume': 'dx', 'nomeasure': 'none', 'boundary': 'ds', 'boundary-nomeasure': 'none'}[kind],
            'op': s.pick(['', '+', '-']), 'c2': s.pick([1.5, 4.0])}
    if sp['phys']:
        sp['in_deriv'] = False      # derivatives are only taken of parametric input fields here
    return sp


def mutations(spec):
    """All one-attribute neighbours (attribute name, new spec) that stay valid."""
    out = []

    def mut(attr, **kw):
        n = dict(spec)
        n.update(kw)
        out.append((attr, n))
    if spec['k'] != 'tpl':
        return out
    if spec['op']:
        mut('operator', op={'+': '-', '-': '+'}[spec['op']])
        mut('constant2', c2=spec['c2'] + 1.0)
        mut('extra-term', op='')
    else:
        mut('extra-term', op='+', c2=spec['c2'] or 1.5)
    if spec['fn'] and spec['fn'] != 'id':
        for g in FUNCS:
            if g != spec['fn']:
                mut('function-name', fn=g)
    mut('constant', c=spec['c'] + 1.0)
    mut('constant-minus-one', c=spec['c'] - 1.0)       # e.g. -1.0 -> -2.0: Python's hash(-1) == hash(-2)
    mut('constant-tiny-difference', c=spec['c'] + 3e-13)
    if spec['comps'] and spec['arity'] == 2:
        mut('vector-operator', vop={'': '+', '+': '-', '-': '+'}[spec.get('vop', '')])
    if spec['fn']:
        if not spec['phys']:
            mut('input-derivative', in_deriv=not spec.get('in_deriv', False))
            if spec.get('in_deriv'):
                mut('input-derivative-parametric', in_dpara=not spec.get('in_dpara', False))
        if spec['in_shape']:
            mut('input-component', in_comp=1 - spec.get('in_comp', 0))
        mut('shape', in_shape=([2] if not spec['in_shape'] else []))
        mut('updatable', upd=not spec['upd'])
        if not spec.get('in_deriv'):
            mut('physical', phys=not spec['phys'])
    if not spec['comps']:
        if spec['dtimes']:
            if spec['dim'] > 1:
                mut('derivative-axis', dax=(spec['dax'] + 1) % spec['dim'])
            mut('derivative-order', dtimes=3 - spec['dtimes'])
            mut('derivative-parametric', dpara=not spec['dpara'])
        mut('derivative-present', dtimes=(0 if spec['dtimes'] else 1))
    if spec['meas'] == 'dx':
        mut('measure', meas='none')
    elif spec['meas'] == 'none' and not spec['boundary'] and not spec['surface']:
        mut('measure', meas='dx')
    if spec['meas'] == 'none':
        mut('boundary-flag', boundary=not spec['boundary'])
    if spec['dim'] >= 2 and not spec['surface']:
        if spec['meas'] == 'dx' and not spec['boundary']:
            mut('boundary-flag+measure', boundary=True, meas='ds')
        if spec['meas'] == 'ds' and spec['boundary']:
            mut('boundary-flag+measure', boundary=False, meas='dx')
            mut('measure', meas='none')
    mut('arity', arity=3 - spec['arity'])
    if spec['arity'] == 2:
        mut('space-index', spaces=([0, 1] if spec['spaces'] == [0, 0] else [0, 0]))
    if spec['comps'] and spec['dim'] == 3:
        mut('component-count', comps=(2 if spec['comps'] == 3 else 3))
    mut('parameter', par=not spec['par'])
    if spec.get('shadow'):
        mut('shadowed-measure-weight', shadow=spec['shadow'] + 1.0)
        mut('shadowed-measure-present', shadow=None)
    elif spec['meas'] == 'dx' and not spec['boundary'] and not spec['surface']:
        mut('shadowed-measure-present', shadow=2.0)
    if spec.get('upar'):
        mut('unused-parameter-present', upar=None)
        mut('unused-parameter-shape', upar=dict(spec['upar'], shape=([] if spec['upar']['shape'] else [2])))
        mut('unused-parameter-name', upar=dict(spec['upar'], name={'zz': 'yy', 'yy': 'zz'}[spec['upar']['name']]))
    else:
        mut('unused-parameter-present', upar={'name': 'zz', 'shape': []})
    if spec.get('nlet'):
        mut('nested-let-definition', nlet={'v': spec['nlet']['v'] + 1.0})
        mut('nested-let-present', nlet=None)
    if spec.get('let') and spec['op']:
        mut('let-symmetric', let=dict(spec['let'], sym=not spec['let']['sym']))
        mut('let-name', let=dict(spec['let'], name={'B': 'C', 'C': 'B'}[spec['let']['name']]))
    if spec['dim'] >= 2 and spec['op'] and not spec['comps']:
        mut('spacetime', st=not spec.get('st', False))
    if normalise(spec).get('tens'):
        for t in tens_names(spec['dim']):
            if t != spec['tens']:
                mut('tensor-expression', tens=t)
        mut('tensor-expression-present', tens=None)
        tw = TENS_TWIN.get(spec['tens'])
        if tw in tens_names(spec['dim']):
            mut('tensor-operand-order', tens=tw)
    elif spec['dim'] >= 2 and not spec['boundary'] and not spec['surface']:
        mut('tensor-expression-present', tens='trJ')
    if spec.get('mat_kind'):
        shp = spec.get('mat_shape', [2, 3])
        for i in range(shp[0]):
            for j in range(shp[1]):
                if [i, j] != list(spec['mat_ij']):
                    mut('matrix-entry', mat_ij=[i, j])
        mut('matrix-shape', mat_shape=[shp[1], shp[0]], mat_ij=[min(spec['mat_ij'][0], shp[1] - 1), min(spec['mat_ij'][1], shp[0] - 1)])
        mut('matrix-kind', mat_kind={'param': 'input', 'input': 'param'}[spec['mat_kind']])
    return out


# ----------------------------------------------------------------------------
# one simulated process: instance of compile.py over a fake disk

class Disk:
    def __init__(self):
        self.src = {}       # modname -> source text
        self.prov = {}      # modname -> list of provenance per class name
        self.names_of_src = {}


class FakeImportlib:
    def __init__(self, inst):
        self._i = inst

    def invalidate_caches(self):
        pass

    def import_module(self, name, package=None):
        i = self._i
        if name in i.modules:
            return i.modules[name]
        if name in i.disk.src:
            m = make_module(name, i.disk.src[name], i.disk.prov[name])
            i.modules[name] = m
            i.ctx.count('disk.cache.hit')
            return m
        raise ModuleNotFoundError("No module named '%s'" % name)

    def __getattr__(self, n):
        return getattr(importlib, n)


def make_module(name, src, prov):
    m = types.SimpleNamespace(__name__=name)
    for cname in re.findall(r'^cdef class (\w+)', src, flags=re.M):
        cls = type(cname, (), {'__vsim_prov__': prov.get(cname), '__vsim_mod__': name})
        setattr(m, cname, cls)
    return m


class SysFacade:
    def __init__(self):
        self.path = []
        self.modules = {}

    def __getattr__(self, n):
        return getattr(_sys, n)


class Instance:
    _n = 0

    def __init__(self, ctx, disk, moddir):
        Instance._n += 1
        self.ctx, self.disk = ctx, disk
        self.modules = {}
        self.current = None      # provenance of the request being served
        path = os.path.join(env.REPO, 'pyiga', 'compile.py')
        spec = importlib.util.spec_from_file_location('pyiga._vsim_formsim_%d' % Instance._n, path)
        mod = importlib.util.module_from_spec(spec)
        mod.__package__ = 'pyiga'
        spec.loader.exec_module(mod)
        mod.MODDIR = moddir
        g = mod.__dict__
        for nm, val in list(g.items()):
            if isinstance(val, types.ModuleType):
                if val is _sys:
                    g[nm] = SysFacade()
                elif val.__name__ == 'importlib':
                    g[nm] = FakeImportlib(self)
        g['_compile_cython_module_nocache'] = self.build
        self.mod = mod
        self.vfs = {}

    def build(self, src, modname, verbose=False):
        d = self.disk
        self.ctx.count('builds')
        if modname in d.src and d.src[modname] != src:
            self.ctx.violation('module-name-collision', 'module name %s is used for two different sources' % modname,
                               {'what': 'naming'})
        old = d.names_of_src.setdefault(hashlib.sha256(src.encode()).hexdigest(), modname)
        if old != modname:
            self.ctx.violation('module-name-unstable', 'identical source mapped to %s and %s' % (old, modname),
                               {'what': 'naming'})
        d.src[modname] = src
        d.prov[modname] = dict(self.current or {})
        m = make_module(modname, src, d.prov[modname])
        self.modules[modname] = m
        return m


def fresh_text(spec, od):
    from pyiga import compile as pc
    return pc.generate(build(spec), on_demand=od)


def run_case(ctx):
    from pyiga import assemblers
    ch = ctx.ch
    cfg = ch.stream('cfg')
    ps = ch.stream('pool')
    moddir = os.path.join(env.scratch_root(), 'formsim-moddir')
    # ---- pool: base + neighbours + predefined
    base = base_spec(ps)
    muts = mutations(base)
    pool = [base]
    attrs = {}
    nn = 1 + ps.choice(4)
    by_attr = {}
    for a, n in muts:
        by_attr.setdefault(a, []).append(n)
    attr_names = sorted(by_attr)
    for _ in range(nn):
        a = attr_names[ps.choice(len(attr_names))]         # attribute first, so every attribute is equally likely
        n = by_attr[a][ps.choice(len(by_attr[a]))]
        if canon(n) not in [canon(p) for p in pool]:
            attrs[len(pool)] = a
            pool.append(n)
    if ps.chance(50):
        # second-order neighbour of the first neighbour
        m2 = mutations(pool[-1])
        a, n = m2[ps.choice(len(m2))]
        if canon(n) not in [canon(p) for p in pool]:
            attrs[len(pool)] = a + '(2nd)'
            pool.append(n)
    pre = predef_table()
    for _ in range(ps.choice(3)):
        pool.append(pre[ps.choice(len(pre))][0])
    if ps.chance(25):
        # the hand-written equivalent of a predefined form and its constant neighbour
        d = ps.pick([2, 3])
        eq = {'k': 'tpl', 'dim': d, 'surface': False, 'boundary': False, 'arity': 2, 'comps': 0, 'spaces': [0, 0],
              'c': 1.0, 'fn': '', 'in_shape': [], 'phys': False, 'upd': False, 'par': False, 'dax': 0, 'dtimes': 0,
              'dpara': False, 'meas': 'dx', 'op': '', 'c2': 1.5}
        pool.append(eq)
        pool.append(dict(eq, c=2.0))
        pool.append({'k': 'predef', 'fn': 'mass_vf', 'dim': d})
    ctx.log({'pool': pool, 'mutated_attributes': attrs})
    for a in attrs.values():
        ctx.count('mutation.' + a)
    predef_by_class = {getattr(assemblers, name): sp for sp, name in pre}
    # validity of the specs (harness side): every spec must build and generate
    texts = {}

    def text_of(spec, od):
        key = (canon(spec), od)
        if key not in texts:
            try:
                texts[key] = fresh_text(spec, od)
            except Exception as e:       # an invalid form is not a request we may make
                texts[key] = e
        return texts[key]
    valid = [i for i, sp in enumerate(pool) if not isinstance(text_of(sp, False), Exception)]
    if len(valid) < len(pool):
        ctx.count('pool.invalid.specs.dropped', len(pool) - len(valid))
    if not valid:
        return
    # ---- history
    rq = ch.stream('req')
    disk = Disk()
    inst = Instance(ctx, disk, moddir)
    nreq = 5 + rq.choice(36 if ctx.tier == 'thorough' else 16)
    seen_in_instance = set()
    pair_hit = False
    sig = lambda what, **kw: dict(what=what, **kw)     # noqa

    def check_returned(cls, spec, od, how):
        prov = getattr(cls, '__vsim_prov__', None)
        if prov is None and cls in predef_by_class:
            prov = {'spec': predef_by_class[cls], 'od': False, 'predef': cls.__name__}
        if prov is None:
            ctx.violation('unknown-assembler', '%s returned %r which no request built' % (how, cls), sig('provenance'))
            return
        ctx.checks += 1
        if canon(prov['spec']) == canon(spec) and prov['od'] == od:
            return
        # sharing across different requests is legal iff they generate identical code
        t_req, t_got = text_of(spec, od), text_of(prov['spec'], prov['od'])
        if isinstance(t_req, str) and t_req == t_got:
            ctx.count('legal.sharing.identical.code')
            return
        if isinstance(t_req, str) and isinstance(t_got, str):
            # generated text may depend on set iteration order: compare several fresh generations,
            # modulo the order of statements
            def variants(sp, o):
                out = set()
                for _ in range(4):
                    try:
                        out.add(tuple(sorted(fresh_text(sp, o).splitlines())))
                    except Exception:
                        pass
                return out
            if variants(spec, od) & variants(prov['spec'], prov['od']):
                ctx.count('legal.sharing.identical.code.modulo.order')
                return
        ns, ps_ = normalise(spec), normalise(prov['spec'])
        diff = [k for k in set(ns) | set(ps_) if ns.get(k) != ps_.get(k)]
        if prov['od'] != od:
            diff.append('on_demand')
        ctx.violation('wrong-assembler', '%s: request for %s (on_demand=%s) was answered with the assembler %s of %s '
                      '(on_demand=%s); they differ in %s and generate different code'
                      % (how, canon(spec), od, prov.get('predef', 'built'), canon(prov['spec']), prov['od'], sorted(diff)),
                      sig('provenance', attrs=','.join(sorted(diff))))

    for r in range(nreq):
        kind = rq.weighted([('vform', 10), ('reuse', 2), ('batch', 2), ('restart', 2), ('incremental', 2)])
        if kind == 'restart':
            inst = Instance(ctx, disk, moddir)
            seen_in_instance = set()
            ctx.log(['restart'])
            ctx.count('op.restart')
            continue
        if kind == 'batch':
            idx = [valid[rq.choice(len(valid))] for _ in range(1 + rq.choice(3))]
            specs = [pool[i] for i in idx]
            ctx.log(['compile_vforms', idx])
            ctx.count('op.compile_vforms')
            # if the tree under test offers an on-demand mode for batches (signature introspection), use it too
            bod = False
            try:
                import inspect
                has_od = 'on_demand' in inspect.signature(inst.mod.compile_vforms).parameters
            except (TypeError, ValueError):
                has_od = False
            if has_od and rq.choice(2) and all(isinstance(text_of(sp, True), str) for sp in specs):
                bod = True
                ctx.count('op.compile_vforms.on_demand')
            inst.current = {'CustomAssembler%d' % k: {'spec': sp, 'od': bod} for k, sp in enumerate(specs)}
            if bod:
                res = ctx.call('compile_vforms', inst.mod.compile_vforms, [build(sp) for sp in specs], on_demand=True)
            else:
                res = ctx.call('compile_vforms', inst.mod.compile_vforms, [build(sp) for sp in specs])
            inst.current = None
            if res is RAISED():
                return
            ctx.check(len(res) == len(specs), 'batch-size', '', sig('batch'))
            for cls, sp in zip(res, specs):
                check_returned(cls, sp, bod, 'compile_vforms')
            continue
        i = valid[rq.choice(len(valid))]
        od = bool(rq.choice(2))
        spec = pool[i]
        if isinstance(text_of(spec, od), Exception):
            ctx.count('request.skipped.invalid.on_demand')
            continue
        if kind == 'reuse' and i in inst.vfs:
            vf = inst.vfs[i]
            how = 'compile_vform(same VForm object again)'
            ctx.count('op.resubmit.same.object')
        elif kind == 'incremental' and spec.get('k') == 'tpl' and normalise(spec).get('op'):
            # terms added one by one with a hash() query in between; a form that accepts this must
            # still be compiled as the complete form
            try:
                vf = build(spec, incremental=True)
            except Exception:
                vf = None
            if vf is None:
                ctx.count('op.incremental.refused-by-vform')
                continue
            how = 'compile_vform(form extended after hash())'
            ctx.count('op.incremental.accepted')
        else:
            vf = build(spec)
            inst.vfs[i] = vf
            how = 'compile_vform'
        ctx.log([kind if kind == 'reuse' else 'compile_vform', i, od])
        ctx.count('op.compile_vform')
        # neighbour pair requested in the same process?
        for j in seen_in_instance:
            if j != i and (j in attrs or i in attrs):
                pair_hit = True
        seen_in_instance.add(i)
        inst.current = {'CustomAssembler': {'spec': spec, 'od': od}}
        cls = ctx.call(how, inst.mod.compile_vform, vf, on_demand=od)
        inst.current = None
        if cls is RAISED():
            continue        # a listed known finding; keep checking the rest of the history
        check_returned(cls, spec, od, how)
        if spec['k'] == 'predef' and not od:
            want = dict((canon(sp), nm) for sp, nm in pre)[canon(spec)]
            ctx.check(cls is getattr(assemblers, want), 'preseeded-class',
                      lambda: 'request for predefined form %s returned %r instead of the shipped %s' % (canon(spec), cls, want),
                      sig('preseed'))
    ctx.nontrivial = pair_hit
    ctx.state = (canon(pool[0]), tuple(sorted(attrs.values())))
    ctx.sim_time = float(nreq)
    ctx.interleaving = [t[:3] if isinstance(t, list) else 'pool' for t in ctx.trace]


def RAISED():
    from .runner import RAISED as R
    return R


# ----------------------------------------------------------------------------
# static part: shipped sources vs today's generator, module naming across interpreters

_STATIC = r'''
import sys, json, hashlib, os, re
sys.path.insert(0, %(repo)r)
from pyiga import vform, compile as pc
from pyiga.codegen import cython as backend
out = {}
def generate(dim):
    code = backend.CodeGen()
    def gen(vf, classname):
        backend.AsmGenerator(vf, classname, code).generate()
    nD = str(dim) + 'D'
    gen(vform.mass_vf(dim), 'MassAssembler'+nD)
    gen(vform.stiffness_vf(dim), 'StiffnessAssembler'+nD)
    gen(vform.heat_st_vf(dim), 'HeatAssembler_ST'+nD)
    gen(vform.wave_st_vf(dim), 'WaveAssembler_ST'+nD)
    gen(vform.divdiv_vf(dim), 'DivDivAssembler'+nD)
    gen(vform.L2functional_vf(dim), 'L2FunctionalAssembler'+nD)
    gen(vform.L2functional_vf(dim, physical=True), 'L2FunctionalAssemblerPhys'+nD)
    return code.result()
out['assemblers'] = backend.preamble() + generate(2) + generate(3)
out['generic'] = '# file generated by generate-assemblers.py\n' + ''.join(backend.generate_generic(dim=d) for d in (1,2,3))
# module naming through the real compile_cython_module (builder and import stubbed)
names = {}
class Imp:
    def import_module(self, name, package=None):
        names[cur[0]] = name
        return object()
    def __getattr__(self, n):
        import importlib
        return getattr(importlib, n)
cur = [None]
pc.importlib = Imp()
pc.MODDIR = %(moddir)r
for k, src in enumerate(%(sources)r):
    cur[0] = k
    pc.compile_cython_module(src)
out['names'] = names
json.dump(out, sys.stdout)
'''


def split_classes(text):
    parts = re.split(r'(?m)^(?=cdef class |@cython\.)', text)
    out = {}
    key = 'preamble'
    for p in parts:
        m = re.search(r'(?m)^cdef class (\w+)', p)
        if m:
            key = m.group(1)
        out[key] = out.get(key, '') + p
    return out


def static_checks(seed):
    """-> (violations [(invariant, detail)], coverage dict)"""
    import concurrent.futures as cf
    from . import core
    moddir = os.path.join(env.scratch_root(), 'static-moddir')
    sources = ['# source %d\ncdef class CustomAssembler:\n    pass\n' % i for i in range(3)] + ['x = 1\n', 'x = 1\n']
    seeds = ['0', '1', str(core.H(seed, 'hashseed') % 4000000000)]
    jobs = [(hs, aslr) for hs in seeds for aslr in (False, True)]

    def one(job):
        hs, aslr = job
        e = dict(os.environ)
        e['PYTHONHASHSEED'] = hs
        e['XDG_CACHE_HOME'] = e.get('VSIM_XDG', e.get('XDG_CACHE_HOME', ''))
        code = _STATIC % dict(repo=env.REPO, moddir=moddir, sources=sources)
        cmd = [_sys.executable, '-c', code]
        cmd = (['setarch', os.uname().machine, '-R'] if not aslr else ['setarch', os.uname().machine]) + cmd
        p = subprocess.run(cmd, stdout=subprocess.PIPE, stderr=subprocess.PIPE, env=e, timeout=600)
        if p.returncode != 0:
            raise RuntimeError('static generation failed (hashseed %s): %s' % (hs, p.stderr.decode(errors='replace')[-800:]))
        return job, json.loads(p.stdout.decode())
    with cf.ThreadPoolExecutor(max_workers=len(jobs)) as ex:
        results = list(ex.map(one, jobs))
    viol = []
    reported = set()
    shipped_asm = open(os.path.join(env.REPO, 'pyiga', 'assemblers.pyx')).read()
    shipped_gen = open(os.path.join(env.REPO, 'pyiga', 'genericasm.pxi')).read()
    exact = 0
    ncls = 0
    for (hs, aslr), out in results:
        for label, shipped, gen in (('assemblers.pyx', shipped_asm, out['assemblers']),
                                    ('genericasm.pxi', shipped_gen, out['generic'])):
            if shipped == gen:
                exact += 1
                continue
            a, b = split_classes(shipped), split_classes(gen)
            for cname in sorted(set(a) | set(b)):
                ncls += 1
                la = sorted(x.rstrip() for x in a.get(cname, '').splitlines() if x.strip())
                lb = sorted(x.rstrip() for x in b.get(cname, '').splitlines() if x.strip())
                if la != lb and (label, cname) not in reported:
                    reported.add((label, cname))
                    only_a = [x for x in la if x not in lb][:3]
                    only_b = [x for x in lb if x not in la][:3]
                    viol.append(('shipped-source-stale', '%s: %s differs from what the generator emits today '
                                 '(PYTHONHASHSEED=%s, ASLR=%s): shipped-only lines %r, generated-only lines %r'
                                 % (label, cname, hs, aslr, only_a, only_b), {'what': 'shipped', 'file': label}))
                    break
    # naming: same source -> same module name in every interpreter; different sources differ
    names0 = results[0][1]['names']
    for (hs, aslr), out in results[1:]:
        if out['names'] != names0:
            viol.append(('module-name-depends-on-interpreter', 'module names for identical sources differ between '
                         'interpreters: %r vs %r (PYTHONHASHSEED=%s)' % (names0, out['names'], hs), {'what': 'naming'}))
            break
    vals = [names0[str(k)] for k in range(len(sources))]
    if len(set(vals[:4])) != 4 or vals[3] != vals[4]:
        viol.append(('module-name-collision', 'naming of %d probe sources: %r' % (len(sources), vals), {'what': 'naming'}))
    cov = {'interpreters': len(results), 'hash_seeds': seeds, 'aslr_variants': 2, 'exact_file_matches': exact,
           'file_comparisons': 2 * len(results), 'classes_compared_order_insensitively': ncls,
           'module_names': names0}
    return viol, cov


def main_check(prop, tier, seed, cfg, args):
    from . import runner, core
    try:
        viol, cov = static_checks(seed)
    except Exception as e:
        print('HARNESS-ERROR property=%s static part failed: %r' % (prop, e))
        return 2
    rc_static = 0
    known = core.load_known(runner.KNOWN_PATH)
    for inv, detail, sg in viol:
        sg = dict(sg, invariant=inv)
        e = core.match_known(known, prop, sg)
        if e is not None:
            print('KNOWN-FINDING: property=%s %s [%s]' % (prop, e.get('text'), e.get('id')))
            continue
        os.makedirs(runner.REPLAY_DIR, exist_ok=True)
        path = os.path.join(runner.REPLAY_DIR, '%s-static-%s.json' % (prop, core.digest([inv, detail])))
        with open(path, 'w') as f:
            json.dump({'property': prop, 'engine': 'vsim.formsim', 'static': True, 'invariant': inv, 'signature': sg,
                       'detail': detail, 'seed': seed, 'choices': {}, 'tier': tier,
                       'how_to_replay': '/venv/bin/python /verif/check replay <this file>'}, f, indent=1)
        print('VIOLATION property=%s replay=%s' % (prop, path))
        print('  invariant=%s\n  detail: %s' % (inv, detail[:600]))
        rc_static = 1
    cov['violations'] = len(viol)
    rc = runner.run_check(prop, tier, seed, cfg['nruns'], wall_cap=cfg.get('wall_cap', 3000),
                          extra_evidence={'static': cov})
    return 1 if 1 in (rc, rc_static) else max(rc, rc_static)


def prepare_replay(params):
    return params
