import argparse
import importlib
import os
import sys

from . import core, env, runner

# runs per tier (deterministic given the seed); wall caps are safety nets only
TIERS = {
    # wall_cap = time budget of the simulated-run phase: when it is used up the check stops starting new
    # batches and reports how many runs were executed (that is not an error)
    'C14': {'quick': dict(nruns=12000, wall_cap=300), 'thorough': dict(nruns=150000, wall_cap=2700)},
    'C04': {'quick': dict(nruns=8000, wall_cap=300), 'thorough': dict(nruns=250000, wall_cap=2700)},
    'C05': {'quick': dict(nruns=8000, wall_cap=300), 'thorough': dict(nruns=200000, wall_cap=2700)},
    'C03': {'quick': dict(nruns=4000, wall_cap=300), 'thorough': dict(nruns=100000, wall_cap=2500)},
    'C11': {'quick': dict(nruns=6000, wall_cap=300), 'thorough': dict(nruns=150000, wall_cap=2700)},
    'C13': {'quick': dict(nruns=3000, wall_cap=400), 'thorough': dict(nruns=60000, wall_cap=2600)},
    'C20': {'quick': dict(nruns=8000, wall_cap=300), 'thorough': dict(nruns=120000, wall_cap=1500)},
    'C08': {'quick': dict(nruns=5000, wall_cap=300), 'thorough': dict(nruns=200000, wall_cap=2500)},
}
DEFAULT_SEED = {'quick': 20260923, 'thorough': 977}


def _on_term(signum, frame):
    raise SystemExit(143)      # run atexit handlers (scratch cleanup)


def main(argv):
    import signal
    signal.signal(signal.SIGTERM, _on_term)
    if not argv or argv[0] in ('-h', '--help'):
        print(__doc__ or 'usage: check <PROPERTY>|replay|selftest|list ...')
        return 0
    cmd = argv[0]
    if cmd == 'list':
        for p, e in sorted(runner.ENGINES.items()):
            print(p, e)
        return 0
    if cmd == 'replay':
        env.ensure_built()
        eng = None
        return runner.replay_file(argv[1])
    if cmd == 'selftest':
        from . import selftest
        return selftest.main(argv[1:])
    prop = cmd
    if prop not in runner.ENGINES:
        print('unknown property %r' % prop)
        return 2
    ap = argparse.ArgumentParser()
    ap.add_argument('--tier', default=os.environ.get('VERIF_TIER', 'quick'), choices=['quick', 'thorough'])
    ap.add_argument('--runs', type=int, default=None)
    ap.add_argument('--seed', type=int, default=None)
    ap.add_argument('--workers', type=int, default=None)
    ap.add_argument('--only', default=None, help='engine specific sub-selection')
    a = ap.parse_args(argv[1:])
    seed = a.seed
    if seed is None:
        s = os.environ.get('VERIF_SEED')
        seed = int(s) if s not in (None, '') else DEFAULT_SEED[a.tier]
    try:
        env.ensure_built()
    except Exception as e:
        print('HARNESS-ERROR property=%s cannot build the tree under test: %r' % (prop, e))
        return 2
    cfg = dict(TIERS[prop][a.tier])
    if a.runs is not None:
        cfg['nruns'] = a.runs
    if a.workers:
        cfg['workers'] = a.workers
    print('VERIF_SEED=%d property=%s tier=%s runs=%d repo=%s' % (seed, prop, a.tier, cfg['nruns'], env.REPO))
    sys.stdout.flush()
    eng = importlib.import_module(runner.ENGINES[prop])
    if hasattr(eng, 'main_check'):
        return eng.main_check(prop, a.tier, seed, cfg, a)
    return runner.run_check(prop, a.tier, seed, **cfg)
