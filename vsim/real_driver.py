"""Subprocess side of cachesim Layer B: one real pyiga process.

usage: real_driver.py request <form> <outfile> [--names <prefix>] [--gate]

Compiles form <form> with the real tool-chain through pyiga.compile (cache
directory from XDG_CACHE_HOME), assembles a small matrix with the resulting
assembler and stores it.  Exit 0 = a correct-looking assembler was obtained;
exit 3 = the request raised (traceback on stdout).

--names <prefix>: tempfile names are taken from a deterministic sequence, so
  that the files a build creates have predictable paths (crash coordinates).
--gate: park before every seam of pyiga.compile (source write, cythonize,
  build_ext.run, publish/rename/link/unlink, rmtree, import) until the parent
  releases this process by writing a line to stdin; announces `READY <label>`.
"""
import os
import sys
import traceback

HERE = os.path.dirname(os.path.dirname(os.path.abspath(__file__)))
sys.path.insert(0, HERE)


def forms(name):
    from pyiga import vform
    from pyiga.vform import VForm, grad, inner, dx
    if name == 'F0':
        V = VForm(2)
        u, v = V.basisfuns()
        V.add((2.0 * u * v + 0.25 * inner(grad(u), grad(v))) * dx)
        return V
    if name == 'F1':
        V = VForm(2)
        u, v = V.basisfuns()
        V.add((u.dx(0) * v + 3.0 * u * v) * dx)
        return V
    if name == 'F2':
        V = VForm(1)
        u, v = V.basisfuns()
        V.add((u.dx(0) * v.dx(0) + 7.0 * u * v) * dx)
        return V
    raise SystemExit('unknown form ' + name)


def main(argv):
    form, out = argv[1], argv[2]
    names = argv[argv.index('--names') + 1] if '--names' in argv else None
    gate = '--gate' in argv
    from vsim import env
    if names:
        import tempfile
        seq = ('%s_%03d' % (names, i) for i in range(100000))
        tempfile._get_candidate_names = lambda: seq
    sys.path.insert(0, env.REPO)
    try:
        import numpy as np
        from pyiga import bspline, geometry, assemble, compile as pc
        if gate:
            install_gates(pc)
        vf = forms(form)
        Asm = pc.compile_vform(vf)
        dim = vf.dim
        kvs = tuple(bspline.make_knots(2, 0.0, 1.0, 3 + d) for d in range(dim))
        geo = geometry.unit_square() if dim == 2 else geometry.line_segment(0.0, 1.0)
        A = assemble.assemble(Asm, kvs, geo=geo).toarray()
        np.save(out, A)
        if gate:
            print('DONE', flush=True)
        return 0
    except SystemExit:
        raise
    except BaseException:
        traceback.print_exc(file=sys.stdout)
        if gate:
            print('FAILED', flush=True)
        return 3


def install_gates(pc):
    """Wrap the seams of pyiga.compile so that this process runs one stage at a
    time under the parent's schedule."""
    import builtins

    def park(label):
        sys.stdout.write('READY %s\n' % label)
        sys.stdout.flush()
        line = sys.stdin.readline()
        if not line:
            os._exit(9)

    real_open = builtins.open

    def g_open(path, mode='r', *a, **kw):
        if any(c in mode for c in 'wax+'):
            park('open:' + os.path.basename(str(path)))
        return real_open(path, mode, *a, **kw)
    pc.open = g_open
    real_cythonize = pc.cythonize

    def g_cythonize(*a, **kw):
        park('cythonize')
        return real_cythonize(*a, **kw)
    pc.cythonize = g_cythonize
    real_gbe = pc._get_build_extension

    def g_gbe():
        be = real_gbe()
        real_run = be.run

        def run():
            park('build_ext')
            return real_run()
        be.run = run
        return be
    pc._get_build_extension = g_gbe

    class OsGate:
        path = os.path

        def __getattr__(self, name):
            real = getattr(os, name)
            if name in ('link', 'rename', 'replace', 'unlink', 'remove', 'symlink'):
                def f(*a, **kw):
                    park('%s:%s' % (name, os.path.basename(str(a[-1]))))
                    return real(*a, **kw)
                return f
            return real
    pc.os = OsGate()
    if hasattr(pc, 'shutil'):
        import shutil

        class ShGate:
            def __getattr__(self, name):
                real = getattr(shutil, name)
                if name in ('rmtree', 'move', 'copy', 'copyfile', 'copy2'):
                    def f(*a, **kw):
                        park(name)
                        return real(*a, **kw)
                    return f
                return real
        pc.shutil = ShGate()
    import importlib

    class ImpGate:
        def __getattr__(self, name):
            real = getattr(importlib, name)
            if name == 'import_module':
                def f(*a, **kw):
                    park('import')
                    return real(*a, **kw)
                return f
            return real
    pc.importlib = ImpGate()


if __name__ == '__main__':
    if len(sys.argv) >= 4 and sys.argv[1] == 'request':
        sys.exit(main(sys.argv[1:]))
    print(__doc__)
    sys.exit(2)
