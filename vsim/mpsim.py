"""mpsim -- C14: multipatch gluing under arbitrary delivery schedules of join
declarations (order, duplication, orientation, API used), checked after every
delivered event against a union-find reference model, plus end-of-run
geometric / detection / assembly oracles."""
import copy
import itertools

import numpy as np
import scipy.sparse as sp

from . import env

env.setup_import()

RULE = {'C14': 'a run = one seeded patch complex (box split nx*ny(*nz) or a ring of k bilinear '
        'wedges around a vertex; per-patch axis permutation/flips; per-axis degree and knots) plus '
        'a seeded delivery schedule of its interface declarations (order, 1-3 fold duplication, '
        'orientation reversal, join_boundaries vs join_dofs, optional redundant vertex/partial joins); '
        'invariants are evaluated on a finalized deep copy after EVERY delivery.  non-trivial = the '
        'complex has a cross point or an edge shared by >2 patches (>=3 patches meeting in one dof) '
        'and the delivery order differs from the construction order or contains a duplicate; '
        'distinct = distinct digest of (complex, delivery schedule)'}
REAL_VS_STUB = {'C14': {'real': ['pyiga.assemble.Multipatch (join_boundaries, join_dofs, finalize, '
                                 'patch_to_global_idx, patch_to_global, assemble_system, compute_dirichlet_bcs)',
                                 'pyiga.assemble.detect_interfaces', 'pyiga.assemble.boundary_dofs/slice_indices',
                                 'shipped Mass/Stiffness/L2Functional assemblers', 'pyiga.geometry.BSplineFunc'],
                        'stub': [], 'model': ['union-find over (patch, local dof)', 'own face slicing with flips',
                                              'Greville-point geometric identification']}}
ASSUMPTIONS = {'C14': ['declarations are never lost (loss changes the closure; not covered by the property)',
                       'conforming complexes only (matching knot vectors along interfaces), as documented',
                       'patch complexes up to 8 patches, <= 6 dofs per direction']}
SHRINK_ORDER = ['geo', 'deliver', 'extra', 'cfg', 'end']


def preimport():
    import networkx, scipy.spatial  # noqa
    import pyiga.assemble, pyiga.vform, pyiga.geometry, pyiga.bspline, pyiga.compile, pyiga.approx  # noqa


# ----------------------------------------------------------------------------
# reference model

class UF:
    def __init__(self):
        self.p = {}

    def find(self, x):
        p = self.p
        p.setdefault(x, x)
        r = x
        while p[r] != r:
            r = p[r]
        while p[x] != r:
            p[x], x = r, p[x]
        return r

    def union(self, a, b):
        ra, rb = self.find(a), self.find(b)
        if ra != rb:
            self.p[rb] = ra


def face_dofs(shape, ax, side, flip=None):
    """Own implementation: raveled (C order) dof indices of the face `ax,side`
    of a TP basis of `shape`, enumerated in C order of the remaining axes, each
    remaining axis k reversed if flip[k]."""
    rem = [k for k in range(len(shape)) if k != ax]
    ranges = []
    for j, k in enumerate(rem):
        r = list(range(shape[k]))
        if flip is not None and flip[j]:
            r.reverse()
        ranges.append(r)
    out = []
    for tup in itertools.product(*ranges):
        mi = [0] * len(shape)
        mi[ax] = 0 if side == 0 else shape[ax] - 1
        for k, v in zip(rem, tup):
            mi[k] = v
        idx = 0
        for k in range(len(shape)):
            idx = idx * shape[k] + mi[k]
        out.append(idx)
    return out


# ----------------------------------------------------------------------------
# patch complexes

def _kv(bspline, p, breaks):
    breaks = np.asarray(breaks, dtype=float)
    kv = np.concatenate(([breaks[0]] * p, breaks, [breaks[-1]] * p))
    return bspline.KnotVector(kv, p)


def _mirror_breaks(br):
    br = np.asarray(br, float)
    return (br[0] + br[-1]) - br[::-1]


def build_complex(ctx):
    """Returns dict(patches=[(kvs, geo)], corners=[array of corner points per patch],
    shapes, dim, desc)."""
    from pyiga import bspline, geometry
    g = ctx.ch.stream('geo')
    kind = g.weighted([('box2', 5), ('ring', 3), ('box3', 2), ('annulus', 2), ('concentric', 1)])
    desc = {'kind': kind}
    lin = bspline.make_knots(1, 0.0, 1.0, 1)
    patches, corners = [], []
    if kind in ('box2', 'box3'):
        dim = 2 if kind == 'box2' else 3
        if dim == 2:
            nn = g.pick([(2, 2), (2, 1), (3, 2), (1, 2), (3, 1), (2, 3)])
        else:
            nn = g.pick([(2, 2, 1), (2, 1, 1), (2, 2, 2), (1, 2, 2)])
        # physical axis a is split into nn[a] unit cells; per physical axis degree/breaks
        degs = [g.intrange(1, 3) for _ in range(dim)]
        nint = [g.intrange(1, 2 if dim == 3 else 3) for _ in range(dim)]
        nonuni = g.chance(30)
        breaks = []
        for a in range(dim):
            b = np.linspace(0.0, 1.0, nint[a] + 1)
            if nonuni and nint[a] > 1:
                b = b ** 2
            breaks.append(b)
        desc.update(n=nn, degs=degs, nint=nint, nonuniform=bool(nonuni), reparam=[])
        for cell in itertools.product(*[range(n) for n in nn]):
            # local param axis k  <->  physical axis perm[k], flipped if fl[k]
            if dim == 2:
                perm = g.pick([(0, 1), (1, 0)])
            else:
                perm = (0, 1, 2)    # 3D: flips only (face axes must stay aligned)
            fl = tuple(bool(g.choice(2)) for _ in range(dim))
            desc['reparam'].append([list(cell), list(perm), [int(f) for f in fl]])
            kvs = []
            for k in range(dim):
                a = perm[k]
                br = breaks[a]
                if fl[k]:
                    br = _mirror_breaks(br)
                kvs.append(_kv(bspline, degs[a], br))
            co = np.zeros((2,) * dim + (dim,))
            for corner in itertools.product((0, 1), repeat=dim):
                x = np.zeros(dim)
                for k in range(dim):
                    a = perm[k]
                    t = corner[k]
                    if fl[k]:
                        t = 1 - t
                    x[a] = cell[a] + t
                # pyiga convention: last param axis <-> x; any consistent choice is fine
                co[corner] = x
            geo = geometry.BSplineFunc((lin,) * dim, co)
            patches.append((tuple(kvs), geo))
            corners.append(co)
    elif kind == 'concentric':
        # 2-3 concentric rings, each ONE patch that closes on itself in the angular direction: the interfaces are
        # closed curves whose two end points coincide, so corner points cannot tell the orientation
        dim = 2
        k = g.intrange(2, 3)
        degs = [g.intrange(1, 2), g.intrange(2, 3)]          # radial, angular
        nint = [g.intrange(1, 2), 1]
        desc.update(k=k, degs=degs, nint=nint, reparam=[])
        ang_kv = bspline.KnotVector(np.array([0, 0, 0, .25, .5, .75, 1, 1, 1.]), 2)
        t0 = 2 * np.pi * g.choice(8) / 8.0
        rot = np.array([[np.cos(t0), -np.sin(t0)], [np.sin(t0), np.cos(t0)]])
        Q = [rot @ np.array(q, float) for q in [(1, 0), (1, 1), (-1, 1), (-1, -1), (1, -1), (1, 0)]]
        for i in range(k):
            base = np.zeros((2, 6, 2))
            for ir, rad in enumerate((1.0 + i, 2.0 + i)):
                for ia in range(6):
                    base[ir, ia] = rad * Q[ia]
            brk = [np.linspace(0.0, 1.0, nint[0] + 1), np.linspace(0.0, 1.0, 4 * nint[1] + 1)]
            base_kvs = [_kv(bspline, degs[0], brk[0]), _kv(bspline, degs[1], brk[1])]
            base_gkvs = [lin, ang_kv]
            perm = g.pick([(0, 1), (1, 0)])
            fl = tuple(bool(g.choice(2)) for _ in range(2))
            desc['reparam'].append([i, list(perm), [int(f) for f in fl]])
            co = np.transpose(base, tuple(perm) + (2,))
            kvs = [base_kvs[perm[0]], base_kvs[perm[1]]]
            gkvs = [base_gkvs[perm[0]], base_gkvs[perm[1]]]
            for kk in range(2):
                if fl[kk]:
                    co = np.flip(co, axis=kk)
            co = np.ascontiguousarray(co)
            geo = geometry.BSplineFunc(tuple(gkvs), co)
            patches.append((tuple(kvs), geo))
            corners.append(np.asarray(geo.grid_eval([np.array([0.0, 0.25, 0.5, 0.75, 1.0])] * 2)))
    elif kind == 'annulus':
        # k >= 2 curved patches around a hole; for k = 2 the SAME two patches share TWO faces
        dim = 2
        k = g.weighted([(2, 4), (3, 2), (4, 1), (5, 1)])
        degs = [g.intrange(1, 3), g.intrange(2, 3)]          # radial, angular
        nint = [g.intrange(1, 2), g.intrange(1, 2)]
        desc.update(k=k, degs=degs, nint=nint, reparam=[])
        ang_kv = bspline.KnotVector(np.array([0, 0, 0, .5, 1, 1, 1.]), 2)
        dl = 2 * np.pi / k
        for i in range(k):
            t0 = i * dl
            rr = lambda t, s=1.0: s * np.array([np.cos(t), np.sin(t)])      # noqa
            Q = [rr(t0), rr(t0 + dl / 4, 1 / np.cos(dl / 4)), rr(t0 + 3 * dl / 4, 1 / np.cos(dl / 4)), rr(t0 + dl)]
            base = np.zeros((2, 4, 2))
            for ir, rad in enumerate((1.0, 2.0)):
                for ia in range(4):
                    base[ir, ia] = rad * Q[ia]
            # space knot vectors on the base axes (0: radial, 1: angular; the angular one keeps the geometry's
            # interior knot so that the spaces of neighbouring patches are conforming)
            brk = [np.linspace(0.0, 1.0, nint[0] + 1), np.linspace(0.0, 1.0, 2 * nint[1] + 1)]
            base_kvs = [_kv(bspline, degs[0], brk[0]), _kv(bspline, degs[1], brk[1])]
            base_gkvs = [lin, ang_kv]
            perm = g.pick([(0, 1), (1, 0)])
            fl = tuple(bool(g.choice(2)) for _ in range(2))
            desc['reparam'].append([i, list(perm), [int(f) for f in fl]])
            co = np.transpose(base, tuple(perm) + (2,))
            kvs = [base_kvs[perm[0]], base_kvs[perm[1]]]
            gkvs = [base_gkvs[perm[0]], base_gkvs[perm[1]]]
            for kk in range(2):
                if fl[kk]:
                    co = np.flip(co, axis=kk)       # all knot vectors used here are mirror symmetric
            co = np.ascontiguousarray(co)
            geo = geometry.BSplineFunc(tuple(gkvs), co)
            patches.append((tuple(kvs), geo))
            # sample points (parameters 0, 1/2, 1) instead of corners: curved faces of different patches can
            # share both end points
            corners.append(np.asarray(geo.grid_eval([np.array([0.0, 0.5, 1.0])] * 2)))
    else:
        dim = 2
        k = g.intrange(3, 6)
        deg = g.intrange(1, 3)
        nint = g.intrange(1, 3)
        desc.update(k=k, deg=deg, nint=nint, reparam=[])
        br = np.linspace(0.0, 1.0, nint + 1)
        ang = [2 * np.pi * i / k for i in range(k)]
        R = [np.array([np.cos(a), np.sin(a)]) for a in ang]
        c = np.zeros(2)
        for i in range(k):
            r0, r1 = R[i], R[(i + 1) % k]
            quad = {(0, 0): c, (0, 1): r0, (1, 0): r1, (1, 1): r0 + r1}
            perm = g.pick([(0, 1), (1, 0)])
            fl = tuple(bool(g.choice(2)) for _ in range(2))
            desc['reparam'].append([i, list(perm), [int(f) for f in fl]])
            co = np.zeros((2, 2, 2))
            for corner in itertools.product((0, 1), repeat=2):
                q = [0, 0]
                for kk in range(2):
                    t = corner[kk]
                    if fl[kk]:
                        t = 1 - t
                    q[perm[kk]] = t
                co[corner] = quad[tuple(q)]
            kvs = tuple(_kv(bspline, deg, br) for _ in range(2))
            patches.append((kvs, geometry.BSplineFunc((lin, lin), co)))
            corners.append(co)
    shapes = [tuple(kv.numdofs for kv in kvs) for kvs, _ in patches]
    return dict(patches=patches, corners=corners, shapes=shapes, dim=dim, desc=desc)


def _key(x):
    return tuple(np.round(np.asarray(x, float), 9) + 0.0)


def ground_truth_interfaces(cx):
    """All pairs of geometrically coinciding faces, from the corner points,
    as (p1, (ax,side), p2, (ax,side), flip) with p1 < p2."""
    dim = cx['dim']
    faces = []
    for p, co in enumerate(cx['corners']):
        for ax in range(dim):
            for side in (0, 1):
                sl = [slice(None)] * dim
                sl[ax] = 0 if side == 0 else -1
                faces.append((p, (ax, side), co[tuple(sl)]))   # shape (2 or 3,)*(dim-1)+(dim,)
    out = []
    for (p1, bd1, c1), (p2, bd2, c2) in itertools.combinations(faces, 2):
        if p1 == p2:
            continue
        for flip in itertools.product((False, True), repeat=dim - 1):
            c2f = c2
            for j, f in enumerate(flip):
                if f:
                    c2f = np.flip(c2f, axis=j)
            if c1.shape == c2f.shape and np.allclose(c1, c2f, atol=1e-9):
                out.append((p1, bd1, p2, bd2, tuple(flip)))
                break
    return out


def greville_points(cx, p):
    """Physical Greville point of every local dof of patch p (raveled C order)."""
    kvs, geo = cx['patches'][p]
    grev = [kv.greville() for kv in kvs]
    vals = geo.grid_eval(grev)
    return vals.reshape(-1, cx['dim'])


# ----------------------------------------------------------------------------

def check_state(ctx, cx, mp_obj, uf, step, final=False):
    """Invariants on a finalized deep copy after a delivery."""
    MP = copy.deepcopy(mp_obj)
    sig = {'what': 'state'}
    if ctx.call('finalize', MP.finalize) is ctx_raised():
        return
    npatch = len(cx['patches'])
    idxs = []
    for p in range(npatch):
        idx = ctx.call('patch_to_global_idx', MP.patch_to_global_idx, p)
        if idx is ctx_raised():
            return
        idx = np.asarray(idx)
        ctx.check(idx.shape == (int(np.prod(cx['shapes'][p])),), 'p2g-shape',
                  'patch %d idx shape %s' % (p, idx.shape), sig)
        idxs.append(idx)
    # classes of the model
    cls_of = {}
    for p in range(npatch):
        for i in range(len(idxs[p])):
            cls_of[(p, i)] = uf.find((p, i))
    nclasses = len(set(cls_of.values()))
    # same global index <=> same class
    g2c, c2g = {}, {}
    for (p, i), c in cls_of.items():
        gi = int(idxs[p][i])
        if g2c.setdefault(gi, c) != c:
            ctx.violation('glued-not-joined',
                          'step %d: global dof %d holds local dofs of two different classes (e.g. patch %d dof %d)'
                          % (step, gi, p, i), sig)
            return
        if c2g.setdefault(c, gi) != gi:
            ctx.violation('joined-not-glued',
                          'step %d: class of (patch %d, dof %d) has global indices %d and %d'
                          % (step, p, i, c2g[c], gi), sig)
            return
    numdofs = ctx.call('numdofs', lambda: MP.numdofs)
    if numdofs is ctx_raised():
        return
    used = sorted(g2c)
    ctx.check(int(numdofs) == nclasses, 'numdofs-ne-classes',
              lambda: 'step %d: numdofs=%d but the joins define %d classes' % (step, numdofs, nclasses), sig)
    ctx.check(used == list(range(nclasses)), 'numbering-not-gapfree',
              lambda: 'step %d: used global indices are not range(%d): missing %s' %
              (step, nclasses, sorted(set(range(max(nclasses, int(numdofs)))) - set(used))[:5]), sig)
    for p in range(npatch):
        for jg in ((False, True) if final else (False,)):
            P = ctx.call('patch_to_global', MP.patch_to_global, p, j_global=jg)
            if P is ctx_raised():
                return
            n = len(idxs[p])
            ncols = sum(len(i) for i in idxs) if jg else n
            ctx.check(P.shape == (int(numdofs), ncols), 'p2g-matrix-shape', 'patch %d: %s' % (p, P.shape), sig)
            Pc = P.tocsc()
            Pc.sum_duplicates()
            ok = (Pc.nnz == n and np.all(Pc.data == 1.0))
            if ok:
                PtP = (P.T @ P).toarray()
                if jg:
                    o = sum(len(i) for i in idxs[:p])
                    E = np.zeros((ncols, ncols))
                    E[o:o + n, o:o + n] = np.eye(n)
                else:
                    E = np.eye(n)
                ok = np.array_equal(PtP, E)
                if ok and not jg:
                    rows = P.tocoo()
                    order = np.argsort(rows.col)
                    ok = np.array_equal(rows.row[order], idxs[p])
            ctx.check(ok, 'p2g-matrix', 'step %d: patch_to_global(%d, j_global=%s) is not the 0/1 '
                      'one-entry-per-column left-invertible matrix of patch_to_global_idx' % (step, p, jg), sig)
    return MP, idxs, nclasses


def ctx_raised():
    from .runner import RAISED
    return RAISED


def run_case(ctx):
    from pyiga import assemble, vform, bspline, geometry
    ch = ctx.ch
    cfg = ch.stream('cfg')
    cx = build_complex(ctx)
    dim, npatch = cx['dim'], len(cx['patches'])
    ctx.log({'complex': cx['desc']})
    truth = ground_truth_interfaces(cx)
    ctx.count('complex.' + cx['desc']['kind'])

    # ---- delivery schedule
    d = ch.stream('deliver')
    events = []
    for k, itf in enumerate(truth):
        ncopies = d.weighted([(1, 6), (2, 3), (3, 1)])
        for _ in range(ncopies):
            events.append(k)
    partial = cfg.chance(25)       # stop after a prefix (not all interfaces delivered)
    order = d.shuffle(range(len(events)))
    sched = [events[i] for i in order]
    if partial and len(sched) > 1:
        sched = sched[:1 + d.choice(len(sched) - 1)]
    MP = assemble.Multipatch(cx['patches'], automatch=False)
    uf = UF()
    delivered = set()
    reordered = sched != sorted(sched)
    dup = len(set(sched)) != len(sched)
    ex = ch.stream('extra')
    step = 0
    # the empty history is a history too
    if cfg.chance(15):
        check_state(ctx, cx, MP, uf, step)
    for k in sched:
        p1, bd1, p2, bd2, flip = truth[k]
        rev = bool(d.choice(2))
        api = d.weighted([('join_boundaries', 3), ('join_dofs', 1)])
        I1 = face_dofs(cx['shapes'][p1], bd1[0], bd1[1])
        I2 = face_dofs(cx['shapes'][p2], bd2[0], bd2[1], flip)
        if api == 'join_dofs' and ex.chance(30) and len(I1) > 1:
            # a declaration may identify the dof pairs in any order
            perm = ex.shuffle(range(len(I1)))
            I1 = [I1[i] for i in perm]
            I2 = [I2[i] for i in perm]
            ctx.count('join_dofs.permuted')
        a = (p1, bd1, I1, p2, bd2, I2)
        if rev:
            a = (p2, bd2, I2, p1, bd1, I1)
        q1, b1, J1, q2, b2, J2 = a
        step += 1
        ctx.log(['deliver', step, api, q1, list(b1), q2, list(b2), [int(f) for f in flip]])
        def as_arg(bd, dim=dim):
            # a boundary may be named by its (axis, side) pair or by the documented strings
            names = {(dim - 1, 0): 'left', (dim - 1, 1): 'right', (dim - 2, 0): 'bottom', (dim - 2, 1): 'top',
                     (dim - 3, 0): 'front', (dim - 3, 1): 'back'}
            if ex.chance(25) and tuple(bd) in names:
                ctx.count('bdspec.as.string')
                return names[tuple(bd)]
            return bd
        use_flip = flip
        if not any(flip) and ex.chance(30):
            use_flip = None         # "no flip" may also be expressed by omitting the argument
        if api == 'join_boundaries':
            b1a, b2a = as_arg(b1), as_arg(b2)
            if True:
                r = ctx.call('join_boundaries', MP.join_boundaries, q1, b1a, q2, b2a, use_flip)
                M1 = face_dofs(cx['shapes'][q1], b1[0], b1[1])
                M2 = face_dofs(cx['shapes'][q2], b2[0], b2[1], flip)
            elif rev:
                # reversed orientation: flip now applies to the (old) first patch's face
                r = ctx.call('join_boundaries', MP.join_boundaries, q1, b1, q2, b2, flip)
                # model: flip applied to second argument's face = J2 side
                M1 = face_dofs(cx['shapes'][q1], b1[0], b1[1])
                M2 = face_dofs(cx['shapes'][q2], b2[0], b2[1], flip)
            else:
                r = ctx.call('join_boundaries', MP.join_boundaries, q1, b1, q2, b2, flip)
                M1, M2 = J1, J2
        else:
            r = ctx.call('join_dofs', MP.join_dofs, q1, np.array(J1), q2, np.array(J2))
            M1, M2 = J1, J2
        if r is ctx_raised():
            return
        for i1, i2 in zip(M1, M2):
            uf.union((q1, i1), (q2, i2))
        delivered.add(k)
        ctx.count('deliveries')
        ctx.count('api.' + api)
        if rev:
            ctx.count('orientation.reversed')
        if k in list(sched[:step - 1]):
            ctx.count('duplicate.deliveries')
        # redundant extra joins (single vertex pair already implied): legal no-ops for the closure
        if ex.chance(10):
            j = ex.choice(len(M1))
            ctx.log(['deliver-extra', step, q2, int(M2[j]), q1, int(M1[j])])
            r = ctx.call('join_dofs', MP.join_dofs, q2, np.array([M2[j]]), q1, np.array([M1[j]]))
            if r is ctx_raised():
                return
            ctx.count('redundant.vertex.joins')
        res = check_state(ctx, cx, MP, uf, step, final=False)
        if res is None:
            return
        # incremental gluing on ONE object: finalize the real object in the middle of the history, look at
        # it (anything a cache inside Multipatch could remember), then keep joining
        if ex.chance(20):
            ctx.log(['finalize-in-place', step])
            ctx.count('op.finalize-in-place')
            if ctx.call('finalize', MP.finalize) is ctx_raised():
                return
            pq = ex.choice(npatch)
            for nm, fn in (('patch_to_global_idx', lambda: MP.patch_to_global_idx(pq)),
                           ('patch_to_global', lambda: MP.patch_to_global(pq)),
                           ('numdofs', lambda: MP.numdofs)):
                if ctx.call(nm, fn) is ctx_raised():
                    return
            if ex.chance(50):
                fcs = [(p, (ax, sd)) for p in range(npatch) for ax in range(dim) for sd in (0, 1)]
                pb, bdb = fcs[ex.choice(len(fcs))]
                if ctx.call('compute_dirichlet_bcs', MP.compute_dirichlet_bcs, [(pb, bdb, (lambda *x: 1.0))]) is ctx_raised():
                    return
    all_delivered = len(delivered) == len(truth)
    res = check_state(ctx, cx, MP, uf, step, final=True)
    if res is None:
        return
    MPf, idxs, nclasses = res

    # classes with >= 3 members => merging of existing classes can occur
    members = {}
    for p in range(npatch):
        for i in range(len(idxs[p])):
            members.setdefault(uf.find((p, i)), []).append((p, i))
    big = sum(1 for m in members.values() if len(m) >= 3)
    if big:
        ctx.count('runs.with.crosspoints')
    ctx.nontrivial = bool(big and (reordered or dup))
    ctx.state = (cx['desc']['kind'], npatch, nclasses, tuple(sched))
    ctx.sim_time = float(step)
    ctx.interleaving = [cx['desc']['kind'], len(cx['patches']), [t[1:] for t in ctx.trace if isinstance(t, list) and t and t[0] == 'deliver']]

    e = ch.stream('end')
    # ---- geometric oracle: with all interfaces delivered, dofs are glued iff Greville points coincide
    if all_delivered and cx['desc']['kind'] != 'concentric':     # (a ring's own seam coincides geometrically, undeclared)
        ctx.count('runs.all.delivered')
        g2pt = {}
        pt2g = {}
        for p in range(npatch):
            G = greville_points(cx, p)
            for i in range(len(idxs[p])):
                key = _key(G[i])
                gi = int(idxs[p][i])
                if pt2g.setdefault(key, gi) != gi:
                    ctx.violation('geometry-not-glued', 'coinciding Greville points of patch %d dof %d '
                                  'carry global dofs %d and %d' % (p, i, pt2g[key], gi), {'what': 'geometry'})
                    return
                if g2pt.setdefault(gi, key) != key:
                    ctx.violation('geometry-overglued', 'global dof %d sits at two different points' % gi,
                                  {'what': 'geometry'})
                    return
    else:
        ctx.count('runs.partial.delivery')

    # ---- automatic detection on a permuted patch list
    if e.chance(35 if ctx.tier == 'quick' else 60):
        perm = e.shuffle(range(npatch))
        plist = [cx['patches'][i] for i in perm]
        r = ctx.call('detect_interfaces', assemble.detect_interfaces, plist)
        if r is ctx_raised():
            return
        connected, found = r
        ctx.count('detect_interfaces.calls')

        def canon(itf, mp=None):
            p1, bd1, p2, bd2, flip = itf
            if mp is not None:
                p1, p2 = mp[p1], mp[p2]
            bd1, bd2 = tuple(int(x) for x in bd1), tuple(int(x) for x in bd2)
            flip = tuple(bool(f) for f in flip) if flip is not None else (False,) * (dim - 1)
            if p1 > p2:
                p1, bd1, p2, bd2 = p2, bd2, p1, bd1
            return (p1, bd1, p2, bd2, flip)
        got = sorted(canon(i, perm) for i in found)
        want = sorted(canon(i) for i in truth)
        ctx.check(got == want, 'detect-interfaces',
                  lambda: 'patch permutation %s: detected %s, geometry says %s' % (perm, got, want),
                  {'what': 'detect'})
        ctx.check(bool(connected) is True, 'detect-connected', 'complex is connected but reported %r' % connected,
                  {'what': 'detect'})
        # automatch constructor must agree with the closure of all interfaces
        if e.chance(50):
            MPa = ctx.call('Multipatch(automatch)', assemble.Multipatch, plist, automatch=True)
            if MPa is ctx_raised():
                return
            ufa = UF()
            for (p1, bd1, p2, bd2, flip) in truth:
                A1 = face_dofs(cx['shapes'][p1], bd1[0], bd1[1])
                A2 = face_dofs(cx['shapes'][p2], bd2[0], bd2[1], flip)
                for i1, i2 in zip(A1, A2):
                    ufa.union((perm.index(p1), i1), (perm.index(p2), i2))
            cxp = dict(cx, patches=plist, shapes=[cx['shapes'][i] for i in perm],
                       corners=[cx['corners'][i] for i in perm])
            ctx.count('automatch.checked')
            if check_state(ctx, cxp, MPa, ufa, -1, final=False) is None:
                return

    # ---- Dirichlet data address glued dofs
    if e.chance(40):
        faces = [(p, (ax, s)) for p in range(npatch) for ax in range(dim) for s in (0, 1)]
        sel = [faces[i] for i in e.sample_positions(len(faces), 5)]
        # the conditions are listed in a seeded ORDER (not by patch number), possibly with one face named twice and
        # with the string spelling of a face; the data are not constant
        order = list(range(len(sel)))
        for i in range(len(order) - 1, 0, -1):
            j = e.choice(i + 1)
            order[i], order[j] = order[j], order[i]
        sel = [sel[i] for i in order]
        if len(sel) > 1 and e.chance(20):
            sel.append(sel[0])
        names = {(0, 0): 'left', (0, 1): 'right', (1, 0): 'bottom', (1, 1): 'top', (2, 0): 'front', (2, 1): 'back'}
        # documented string spellings: "left" = x low, ..., where x is the LAST parameter axis
        def spell(bd):
            return names[(dim - 1 - bd[0], bd[1])]

        def gdir(*x):
            return 1.0 + x[0] + 2.0 * x[1]
        as_str = [bool(e.chance(25)) for _ in sel]
        bdconds = [(p, (spell(bd) if st else bd), gdir) for (p, bd), st in zip(sel, as_str)]
        ctx.log(['dirichlet', [[p, list(bd), st] for (p, bd), st in zip(sel, as_str)]])
        r = ctx.call('compute_dirichlet_bcs', MPf.compute_dirichlet_bcs, bdconds)
        if r is ctx_raised():
            return
        ind, val = r
        want = set()
        for p, bd in sel:
            for i in face_dofs(cx['shapes'][p], bd[0], bd[1]):
                want.add(int(idxs[p][i]))
        ind = [int(i) for i in ind]
        val = np.asarray(val, dtype=float)
        ctx.count('dirichlet.checked')
        ctx.check(len(set(ind)) == len(ind) and set(ind) == want, 'dirichlet-indices',
                  lambda: 'faces %s: indices %s, expected the glued dofs %s' % (sel, sorted(ind), sorted(want)),
                  {'what': 'dirichlet'})
        ctx.check(len(val) == len(ind), 'dirichlet-values', 'values/indices length mismatch', {'what': 'dirichlet'})
        if len(val) == len(ind) and set(ind) == want and len(set(ind)) == len(ind):
            # VALUES: (a) against the single-patch routine (not part of the multipatch code) scattered through the
            # validated local-to-global maps; (b) where g o geo lies in the spline space (multilinear geometry, g affine)
            # every approximation scheme reproduces it: the coefficient is g at the physical Greville point
            expect = {}
            for p, bd in sel:
                kvs_p, geo_p = cx['patches'][p]
                li, lv = assemble.compute_dirichlet_bc(kvs_p, geo_p, bd, gdir)
                for i, v in zip(li, lv):
                    expect.setdefault(int(idxs[p][int(i)]), []).append(float(v))
            exact = {}
            if cx['desc']['kind'] in ('box2', 'box3', 'ring'):
                for p, bd in sel:
                    G = greville_points(cx, p)
                    for i in face_dofs(cx['shapes'][p], bd[0], bd[1]):
                        exact.setdefault(int(idxs[p][i]), []).append(float(gdir(*G[i])))

            def judge(pairs, how):
                bad = []
                for gi, v in pairs:
                    cands = expect.get(gi, []) + exact.get(gi, [])
                    if not any(abs(v - c) <= 1e-9 * (1.0 + abs(c)) for c in cands):
                        bad.append((gi, v, cands[:2]))
                ctx.check(not bad, 'dirichlet-value-on-wrong-dof',
                          lambda: '%s: %d of %d Dirichlet values do not belong to the glued dof they are attached to, e.g. '
                                  'global dof %d gets %.6g, expected %s (conditions %s)' % (how, len(bad), len(pairs), bad[0][0], bad[0][1],
                                                                                             bad[0][2], [(p, bd) for p, bd in sel]),
                          {'what': 'dirichlet-values', 'how': how})
            judge(list(zip(ind, val)), 'pairs (index[k], value[k])')
            # ... and as seen by the documented consumer: "a pair (indices, values) suitable for passing to
            # RestrictedLinearSystem"; the completed vector must carry each value on its own dof and zero elsewhere
            n = MPf.numdofs
            LS = ctx.call('RestrictedLinearSystem', assemble.RestrictedLinearSystem, sp.identity(n, format='csr'), np.zeros(n),
                          (np.asarray(r[0]), np.asarray(r[1])))
            if LS is ctx_raised():
                return
            u = np.asarray(LS.complete(np.zeros(LS.A.shape[0]))).ravel()
            judge([(gi, float(u[gi])) for gi in sorted(want)], 'RestrictedLinearSystem(A, b, bcs).complete(0)')
            free = np.ones(n, dtype=bool)
            free[sorted(want)] = False
            ctx.check(not np.any(u[free] != 0.0), 'dirichlet-value-on-free-dof', 'completed vector is nonzero on a free dof',
                      {'what': 'dirichlet-values'})

    # ---- assembled system = sum over patches of the per-patch systems scattered through the (already
    # validated) local-to-global maps: every complex kind, also after partial delivery
    if e.chance(25 if ctx.tier == 'quick' else 40):
        def fsrc(*x):
            return 1.0 + x[0] - 0.5 * x[-1]
        which = e.pick(['mass', 'stiffness'])
        mk = (lambda: vform.mass_vf(dim)) if which == 'mass' else (lambda: vform.stiffness_vf(dim))
        r = ctx.call('assemble_system', MPf.assemble_system, mk(), vform.L2functional_vf(dim, physical=True), f=fsrc)
        if r is ctx_raised():
            return
        A, b = r
        wantA = np.zeros((nclasses, nclasses))
        wantb = np.zeros(nclasses)
        for p in range(npatch):
            kvs_p, geo_p = cx['patches'][p]
            Ap = assemble.assemble(mk(), kvs_p, geo=geo_p).toarray()
            bp = assemble.assemble(vform.L2functional_vf(dim, physical=True), kvs_p, geo=geo_p, f=fsrc).ravel()
            ii = np.asarray(idxs[p], dtype=int)
            np.add.at(wantA, (ii[:, None], ii[None, :]), Ap)
            np.add.at(wantb, ii, bp)
        ctx.count('assemble_system.vs-patch-sum')
        okshape = (A.shape == wantA.shape and np.asarray(b).shape == wantb.shape)
        ctx.check(okshape, 'assemble-shape', 'assemble_system returned shapes %s, %s for %d glued dofs'
                  % (A.shape, np.asarray(b).shape, nclasses), {'what': 'assemble'})
        if okshape:
            Ad = A.toarray()
            sc = max(1e-300, np.abs(wantA).max())
            ctx.check(np.abs(Ad - wantA).max() <= 1e-11 * sc, 'assemble-matrix-patch-sum',
                      lambda: '%s matrix of the %s complex differs from the sum of the per-patch matrices scattered through '
                      'patch_to_global_idx by %.3g (scale %.3g)' % (which, cx['desc']['kind'], np.abs(Ad - wantA).max(), sc),
                      {'what': 'assemble'})
            ctx.check(np.abs(np.asarray(b) - wantb).max() <= 1e-11 * max(1e-300, np.abs(wantb).max()), 'assemble-rhs-patch-sum',
                      lambda: 'right-hand side differs from the scattered per-patch vectors by %.3g' % np.abs(np.asarray(b) - wantb).max(),
                      {'what': 'assemble'})

    # ---- assembled system equals the undivided single-patch system (box complexes, all delivered)
    if all_delivered and cx['desc']['kind'].startswith('box') and e.chance(20 if ctx.tier == 'quick' else 40):
        desc = cx['desc']
        kvs_big = []
        for a in range(dim):
            # physical axis a: nn[a] unit cells, each with the patch breaks; C^0 at patch interfaces
            nint = desc['nint'][a]
            b = np.linspace(0.0, 1.0, nint + 1)
            if desc['nonuniform'] and nint > 1:
                b = b ** 2
            p = desc['degs'][a]
            kn = [0.0] * (p + 1)
            for c in range(desc['n'][a]):
                for t in b[1:-1]:
                    kn.append(c + t)
                kn.extend([c + 1.0] * (p if c < desc['n'][a] - 1 else p + 1))
            kvs_big.append(bspline.KnotVector(np.array(kn), p))
        lin = [bspline.KnotVector(np.array([0.0, 0.0, float(desc['n'][a]), float(desc['n'][a])]), 1) for a in range(dim)]
        co = np.zeros((2,) * dim + (dim,))
        for corner in itertools.product((0, 1), repeat=dim):
            co[corner] = [corner[a] * desc['n'][a] for a in range(dim)]
        geo_big = geometry.BSplineFunc(tuple(lin), co)

        def f(*x):
            return 1.0 + x[0] + 2 * x[-1]
        which = e.pick(['mass', 'stiffness'])
        prob = vform.mass_vf(dim) if which == 'mass' else vform.stiffness_vf(dim)
        r = ctx.call('assemble_system', MPf.assemble_system, prob, vform.L2functional_vf(dim, physical=True), f=f)
        if r is ctx_raised():
            return
        A, b = r
        prob2 = vform.mass_vf(dim) if which == 'mass' else vform.stiffness_vf(dim)
        A1 = assemble.assemble(prob2, tuple(kvs_big), geo=geo_big).toarray()
        b1 = assemble.assemble(vform.L2functional_vf(dim, physical=True), tuple(kvs_big), geo=geo_big, f=f).ravel()
        G1 = geo_big.grid_eval([kv.greville() for kv in kvs_big]).reshape(-1, dim)
        pt2single = {_key(x): i for i, x in enumerate(G1)}
        perm = np.full(nclasses, -1)
        okmap = len(pt2single) == nclasses
        if okmap:
            for p in range(npatch):
                Gp = greville_points(cx, p)
                for i in range(len(idxs[p])):
                    perm[int(idxs[p][i])] = pt2single.get(_key(Gp[i]), -1)
            okmap = (sorted(perm) == list(range(nclasses)))
        ctx.count('assemble_system.compared')
        if not okmap:
            ctx.violation('assemble-dofmap', 'glued dofs are not in bijection with the dofs of the undivided '
                          'C^0 space (%d vs %d)' % (nclasses, len(pt2single)), {'what': 'assemble'})
            return
        A = A.toarray()
        A2 = np.zeros_like(A1)
        A2[np.ix_(perm, perm)] = A
        b2 = np.zeros_like(b1)
        b2[perm] = b
        sc = max(1e-300, np.abs(A1).max())
        ctx.check(np.abs(A2 - A1).max() <= 1e-11 * sc, 'assemble-matrix',
                  lambda: '%s matrix of the %s complex differs from the undivided domain by %.3g (scale %.3g)'
                  % (which, desc['n'], np.abs(A2 - A1).max(), sc), {'what': 'assemble'})
        ctx.check(np.abs(b2 - b1).max() <= 1e-11 * max(1e-300, np.abs(b1).max()), 'assemble-rhs',
                  lambda: 'rhs differs by %.3g' % np.abs(b2 - b1).max(), {'what': 'assemble'})
