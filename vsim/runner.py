"""Batch runner: fan simulated runs out over worker processes, aggregate
coverage, minimise and write replay files, write evidence, speak the
VIOLATION / KNOWN-FINDING / HARNESS-ERROR protocol."""
import concurrent.futures as cf
import faulthandler
import importlib
import json
import multiprocessing as mp
import os
import sys
import time
import traceback

from . import core

VERIF = os.path.dirname(os.path.dirname(os.path.abspath(__file__)))
KNOWN_PATH = os.path.join(VERIF, 'known_findings.json')
# Runs against anything but /repo itself (tools/mutant.sh, sensitivity experiments) set VSIM_OUT so that
# they never overwrite the committed evidence, which must come from /repo.
_OUT = os.environ.get('VSIM_OUT') or VERIF
EVID_DIR = os.path.join(_OUT, 'evidence')
REPLAY_DIR = os.path.join(_OUT, 'replays')

ENGINES = {
    'C14': 'vsim.mpsim',
    'C04': 'vsim.hsim',
    'C05': 'vsim.hsim',
    'C03': 'vsim.hsim',
    'C11': 'vsim.hsim',
    'C20': 'vsim.cachesim',
    'C13': 'vsim.formsim',
    'C08': 'vsim.asmsim',
}


class Ctx:
    """Per-run context handed to an engine."""

    def __init__(self, prop, choices, tier, known, collect_known=True, params=None):
        self.prop = prop
        self.ch = choices
        self.tier = tier
        self.known = known
        self.collect_known = collect_known
        self.params = params or {}
        self.stats = {}
        self.trace = []
        self.known_hits = {}
        self.nontrivial = False
        self.state = None
        self.sim_time = 0.0
        self.checks = 0
        self.interleaving = None     # engine-defined description of the schedule/order actually taken

    def count(self, key, n=1):
        self.stats[key] = self.stats.get(key, 0) + n

    def log(self, *item):
        self.trace.append(list(item) if len(item) != 1 else item[0])

    def violation(self, invariant, detail='', signature=None):
        """Report a violated invariant.  A listed known finding is counted and
        the run continues; anything else aborts the run."""
        v = core.Violation(invariant, detail, signature)
        e = core.match_known(self.known, self.prop, v.signature) if self.collect_known else None
        if e is not None:
            kid = e.get('id', e.get('text', '?'))
            self.known_hits[kid] = self.known_hits.get(kid, 0) + 1
            return e
        raise v

    def check(self, cond, invariant, detail='', signature=None):
        self.checks += 1
        if not cond:
            if callable(detail):
                detail = detail()
            return self.violation(invariant, detail, signature)
        return None

    def call(self, name, fn, *a, **kw):
        """Call into real code; an exception there is a violation of the
        'operation must not raise' kind (never a harness error)."""
        try:
            return fn(*a, **kw)
        except core.Violation:
            raise
        except Exception as e:  # noqa
            tb = traceback.extract_tb(e.__traceback__)
            site = ''
            for fr in reversed(tb):
                if '/pyiga/' in fr.filename:
                    site = '%s:%s' % (os.path.basename(fr.filename), fr.name)
                    break
            self.violation('raises', '%s raised %s: %s' % (name, type(e).__name__, str(e)[:200]),
                           {'op': name, 'exc': type(e).__name__, 'site': site})
            return _Raised


class _RaisedT:
    def __repr__(self):
        return '<raised>'


_Raised = _RaisedT()
RAISED = _Raised


def execute(prop, choices, tier, known=None, collect_known=True, params=None):
    """Run one simulated execution.  Returns result dict."""
    eng = importlib.import_module(ENGINES[prop])
    ctx = Ctx(prop, choices, tier, known if known is not None else core.load_known(KNOWN_PATH),
              collect_known, params)
    res = {'violation': None}
    try:
        eng.run_case(ctx)
    except core.Violation as v:
        res['violation'] = {'invariant': v.invariant, 'detail': str(v.detail)[:2000],
                            'signature': v.signature}
    res.update(stats=ctx.stats, trace=ctx.trace, known_hits=ctx.known_hits,
               nontrivial=ctx.nontrivial, state=ctx.state, sim_time=ctx.sim_time,
               checks=ctx.checks, record=choices.record(),
               interleaving=(core.digest(ctx.interleaving) if ctx.interleaving is not None else None))
    res['digest'] = core.digest([res['trace'], res['violation'], res['state']])
    return res


# --------------------------------------------------------------------------

def _worker_batch(args):
    prop, seed, tier, idxs, wall_cap, params = args
    # watchdog against a hang inside one batch (25 runs): generous, so that a batch which is merely slow on an
    # overloaded machine is not thrown away when the time budget of the run phase ends
    faulthandler.dump_traceback_later(wall_cap + min(wall_cap, 300) + 60, exit=True)
    out = []
    known = core.load_known(KNOWN_PATH)
    try:
        for r in idxs:
            run_seed = core.H(seed, prop, r)
            ch = core.Choices(run_seed)
            try:
                res = execute(prop, ch, tier, known, params=params)
            except Exception:
                out.append({'run': r, 'run_seed': run_seed, 'harness_error': traceback.format_exc()})
                continue
            slim = {'run': r, 'run_seed': run_seed, 'violation': res['violation'],
                    'stats': res['stats'], 'known_hits': res['known_hits'],
                    'nontrivial': res['nontrivial'], 'state': res['state'],
                    'sim_time': res['sim_time'], 'checks': res['checks'],
                    'digest': res['digest'], 'nsteps': len(res['trace']), 'interleaving': res.get('interleaving')}
            if res['violation'] is not None or r < 3:
                slim['record'] = res['record']
                slim['trace'] = res['trace']
            out.append(slim)
    finally:
        faulthandler.cancel_dump_traceback_later()
    return out


def _crash_result(prop, seed, r, sig):
    run_seed = core.H(seed, prop, r)
    return {'run': r, 'run_seed': run_seed,
            'violation': {'invariant': 'process-crash',
                          'detail': 'the process executing this run died with signal %s (fatal error inside the code under '
                                    'test, e.g. a segfault in a compiled assembler); replay re-executes it in a child process' % (sig,),
                          'signature': {'invariant': 'process-crash', 'what': 'process-crash', 'signal': str(sig)}},
            'stats': {}, 'known_hits': {}, 'nontrivial': False, 'state': None, 'sim_time': 0, 'checks': 0,
            'digest': core.digest(['crash', r, str(sig)]), 'nsteps': 0,
            'record': {'__run_seed__': [run_seed]}, 'trace': ['process died with signal %s' % (sig,)]}


def _choices_from(record):
    if record is not None and list(record.keys()) == ['__run_seed__']:
        return core.Choices(record['__run_seed__'][0])      # regenerate from the seed
    return core.Choices(recorded=record)


def _exec_for_replay(arg):
    prop, tier, record, params = arg
    return execute(prop, _choices_from(record), tier, collect_known=True, params=params)


def _replay_fails(prop, tier, record, invariant, signature, params=None):
    if invariant == 'process-crash':
        from . import pool
        st, payload = pool.run_isolated(_exec_for_replay, (prop, tier, record, params), timeout=900)
        if st == 'crashed':
            res = _crash_result(prop, 0, 0, payload)
            res['record'] = record
            return True, None, res
        if st == 'ok':
            return False, None, payload
        return False, None, None
    ch = _choices_from(record)
    try:
        res = execute(prop, ch, tier, collect_known=True, params=params)
    except Exception:
        return False, None, None
    v = res['violation']
    if v is None or v['invariant'] != invariant:
        return False, None, res
    # keep the minimiser on the same failure class
    for k in ('op', 'exc', 'site', 'what'):
        if k in signature and v['signature'].get(k) != signature.get(k):
            return False, None, res
    return True, res['record'], res


def _minimise_job(args):
    prop, tier, record, viol, budget, wall, params = args
    faulthandler.dump_traceback_later(wall + 60, exit=True)
    t0 = time.time()

    def still(rec):
        if time.time() - t0 > wall:
            return False, None
        ok, norm, _ = _replay_fails(prop, tier, rec, viol['invariant'], viol['signature'], params)
        return ok, norm

    eng = importlib.import_module(ENGINES[prop])
    order = getattr(eng, 'SHRINK_ORDER', None)
    small, used = core.minimise(record, still, budget=budget, order=order)
    ok, norm, res = _replay_fails(prop, tier, small, viol['invariant'], viol['signature'], params)
    faulthandler.cancel_dump_traceback_later()
    if not ok:
        # should not happen (engine nondeterminism) -- fall back to the original
        ok2, norm2, res2 = _replay_fails(prop, tier, record, viol['invariant'], viol['signature'], params)
        return {'record': record, 'used': used, 'stable': False, 'orig_reproduces': ok2,
                'res': _slim(res2)}
    return {'record': small, 'used': used, 'stable': True, 'res': _slim(res)}


def _slim(res):
    if res is None:
        return None
    return {'violation': res['violation'], 'trace': res['trace'], 'digest': res['digest']}


def write_replay(prop, seed, tier, run, run_seed, mini, orig_viol, params=None):
    os.makedirs(REPLAY_DIR, exist_ok=True)
    res = mini['res'] or {}
    viol = res.get('violation') or orig_viol
    doc = {
        'property': prop, 'engine': ENGINES[prop], 'seed': seed, 'tier': tier,
        'run_index': run, 'run_seed': run_seed,
        'invariant': viol['invariant'], 'signature': viol['signature'],
        'detail': viol['detail'],
        'choices': mini['record'],
        'trace': res.get('trace'),
        'minimised': mini['stable'], 'shrink_executions': mini['used'],
        'digest': res.get('digest'),
        'params': params or {},
        'how_to_replay': '/venv/bin/python /verif/check replay <this file>',
    }
    name = '%s-%s.json' % (prop, core.digest([viol['invariant'], viol['signature'], mini['record']]))
    path = os.path.join(REPLAY_DIR, name)
    with open(path, 'w') as f:
        f.write(_dumps(doc))
    return path


def _dumps(doc):
    """indent=1 JSON but with lists of scalars on one line."""
    import re
    txt = json.dumps(doc, indent=1, default=str)

    def collapse(m):
        return re.sub(r'\s+', ' ', m.group(0))
    return re.sub(r'\[[^\[\]{}]*\]', collapse, txt)


def validate_evidence(doc):
    for k in ('property_id', 'tier', 'seed', 'level', 'coverage', 'wall_s'):
        assert k in doc, k
    cov = doc['coverage']
    assert isinstance(cov['evaluations'], int) and cov['evaluations'] >= 1
    assert isinstance(cov['distinct_nontrivial'], int)
    assert isinstance(cov['rule'], str) and isinstance(cov['samples'], list) and cov['samples']
    assert doc['tier'] in ('quick', 'thorough') and isinstance(doc['seed'], int)


def run_check(prop, tier, seed, nruns, workers=None, batch=None, wall_cap=3000,
              min_budget=300, min_wall=600, params=None, extra_evidence=None,
              pre_results=None, quiet=False, evidence_path=None, label=None):
    """Run `nruns` simulated executions of `prop`; returns exit code."""
    t0 = time.time()
    eng = importlib.import_module(ENGINES[prop])
    if hasattr(eng, 'preimport'):
        eng.preimport()     # heavy imports once in the parent; workers inherit them by fork
    workers = workers or min(16, os.cpu_count() or 1)
    if batch is None:
        batch = max(1, min(25, nruns // (workers * 4) or 1))
    idx_batches = [list(range(i, min(nruns, i + batch))) for i in range(0, nruns, batch)]
    results = list(pre_results or [])
    harness_errors = []
    deadline = t0 + wall_cap
    from . import pool
    jobs = [(prop, seed, tier, b, int(wall_cap), params) for b in idx_batches]
    crashed_batches = []
    skipped_by_budget = []
    for (bi, status, payload) in pool.run_jobs(_worker_batch, jobs, workers, deadline=deadline, job_timeout=wall_cap + min(wall_cap, 300) + 120):
        if status == 'ok':
            for r in payload:
                (harness_errors if 'harness_error' in r else results).append(r)
        elif status == 'error':
            harness_errors.append({'run': None, 'harness_error': payload})
        elif status == 'crashed':
            crashed_batches.append((bi, payload))
        elif status == 'timeout':
            harness_errors.append({'run': idx_batches[bi][0], 'harness_error': 'batch starting at run %d exceeded %ss' % (idx_batches[bi][0], wall_cap)})
        elif status == 'deadline':
            skipped_by_budget.append(bi)        # the time budget of the tier is used up: not an error
    # a worker died (fatal signal in the code under test?): re-run its batch run by run, each in its own process
    for (bi, why) in crashed_batches:
        singles = [(prop, seed, tier, [r], int(wall_cap), params) for r in idx_batches[bi]]
        for (k, status, payload) in pool.run_jobs(_worker_batch, singles, min(workers, len(singles)),
                                                  deadline=deadline, job_timeout=min(wall_cap, 900)):
            r = idx_batches[bi][k]
            if status == 'ok':
                for rr in payload:
                    (harness_errors if 'harness_error' in rr else results).append(rr)
            elif status == 'crashed':
                results.append(_crash_result(prop, seed, r, payload))
            else:
                harness_errors.append({'run': r, 'harness_error': 'isolated re-run of run %d: %s %r' % (r, status, payload)})
    if skipped_by_budget:
        extra_evidence = dict(extra_evidence or {})
        extra_evidence['time_budget_s'] = wall_cap
        extra_evidence['runs_not_executed_because_time_budget_was_used_up'] = sum(len(idx_batches[b]) for b in skipped_by_budget)
        if not quiet:
            print('%s: time budget of %ds used up after %d of %d runs (not an error)' % (prop, wall_cap, len(results), nruns))
    results.sort(key=lambda r: r['run'])
    return finish(prop, tier, seed, results, harness_errors, t0, eng,
                  min_budget=min_budget, min_wall=min_wall, params=params,
                  extra_evidence=extra_evidence, workers=workers, quiet=quiet,
                  evidence_path=evidence_path, label=label)


def finish(prop, tier, seed, results, harness_errors, t0, eng, min_budget=300, min_wall=600,
           params=None, extra_evidence=None, workers=16, quiet=False, evidence_path=None, label=None):
    known = core.load_known(KNOWN_PATH)
    viols = [r for r in results if r.get('violation')]
    stats, known_hits = {}, {}
    digests, states, nontriv, inter = set(), set(), set(), set()
    sim_time = 0.0
    checks = 0
    for r in results:
        for k, v in r['stats'].items():
            stats[k] = stats.get(k, 0) + v
        for k, v in r['known_hits'].items():
            known_hits[k] = known_hits.get(k, 0) + v
        digests.add(r['digest'])
        if r.get('state') is not None:
            states.add(str(r['state']))
        if r['nontrivial']:
            nontriv.add(r['digest'])
        if r.get('interleaving'):
            inter.add(r['interleaving'])
        sim_time += r.get('sim_time') or 0
        checks += r.get('checks') or 0

    exit_code = 0
    lines = []
    # listed known findings
    for kid, n in sorted(known_hits.items()):
        e = next((e for e in known if e.get('id') == kid), {})
        lines.append('KNOWN-FINDING: property=%s %s [%s; hit %d times in this run]' %
                     (prop, e.get('text', kid), kid, n))
    replay_paths = []
    t_runs = time.time() - t0
    if viols:
        exit_code = 1
        # group by signature, minimise the first of each of (at most) 3 groups
        groups = {}
        for r in viols:
            groups.setdefault(core.digest(r['violation']['signature']), []).append(r)
        for gk, g in sorted(groups.items(), key=lambda kv: -len(kv[1])):
            lines.append('  violation-group n=%d signature=%s e.g. run %d: %s' % (
                len(g), json.dumps(g[0]['violation']['signature'], sort_keys=True), g[0]['run'],
                g[0]['violation']['detail'][:160]))
        jobs = []
        for g in list(groups.values())[:3]:
            r = min(g, key=lambda r: (r.get('nsteps', 0), r['run']))
            jobs.append((r, (prop, tier, r['record'], r['violation'], min_budget, min_wall, params)))
        from . import pool
        minis = {}
        todo = [(k, j) for k, (r, j) in enumerate(jobs) if r['violation']['invariant'] != 'process-crash']
        if todo:
            for (k2, status, payload) in pool.run_jobs(_minimise_job, [j for _, j in todo], len(todo),
                                                       job_timeout=min_wall + 180):
                if status == 'ok':
                    minis[todo[k2][0]] = payload
        if True:
            for k, (r, j) in enumerate(jobs):
                mini = minis.get(k)
                if mini is None:
                    mini = {'record': r['record'], 'used': 0, 'stable': r['violation']['invariant'] == 'process-crash',
                            'res': {'violation': r['violation'], 'trace': r.get('trace'), 'digest': r['digest']}}
                path = write_replay(prop, seed, tier, r['run'], r['run_seed'], mini, r['violation'], params)
                replay_paths.append(path)
                v = (mini['res'] or {}).get('violation') or r['violation']
                lines.append('VIOLATION property=%s replay=%s' % (prop, path))
                lines.append('  invariant=%s run=%d run_seed=%d groups=%d total_violating_runs=%d minimised=%s' %
                             (v['invariant'], r['run'], r['run_seed'], len(groups), len(viols), mini['stable']))
                lines.append('  detail: %s' % (v['detail'][:500],))
    if harness_errors:
        exit_code = exit_code or 2
        lines.append('HARNESS-ERROR property=%s count=%d first:\n%s' %
                     (prop, len(harness_errors), harness_errors[0]['harness_error'][-3000:]))

    t_min = time.time() - t0
    wall = time.time() - t0
    samples = []
    for r in results[:3]:
        if 'trace' in r:
            samples.append({'run': r['run'], 'run_seed': r['run_seed'], 'trace': _truncate(r['trace'])})
    nev = len(results)
    cov = {
        'evaluations': nev,
        'distinct_nontrivial': len(nontriv),
        'rule': getattr(eng, 'RULE', {}).get(prop, getattr(eng, 'RULE', {}).get('*', '')),
        'samples': samples or [{'note': 'no run finished'}],
        'distinct_trace_digests': len(digests),
        'distinct_final_model_states': len(states),
        'distinct_interleavings': len(inter),
        'invariant_evaluations': checks,
        'simulated_time_units': round(sim_time, 3),
        'runs_per_hour': int(nev / wall * 3600) if wall > 0 else 0,
        'workers': workers,
        'fault_and_probe_counters': dict(sorted(stats.items())),
        'known_finding_hits': known_hits,
        'real_vs_stub': getattr(eng, 'REAL_VS_STUB', {}).get(prop, getattr(eng, 'REAL_VS_STUB', {}).get('*', {})),
        'harness_errors': len(harness_errors),
        'replays': replay_paths,
        'wall_runs_s': round(t_runs, 2), 'wall_minimise_s': round(t_min - t_runs, 2),
    }
    if extra_evidence:
        cov.update(extra_evidence)
    doc = {
        'property_id': prop, 'tier': tier, 'seed': int(seed), 'level': 'exploration',
        'coverage': cov,
        'assumptions': getattr(eng, 'ASSUMPTIONS', {}).get(prop, getattr(eng, 'ASSUMPTIONS', {}).get('*', [])),
        'wall_s': round(wall, 2),
        'violations': len(viols),
    }
    try:
        validate_evidence(doc)
    except Exception as e:
        lines.append('HARNESS-ERROR property=%s evidence invalid: %r' % (prop, e))
        exit_code = exit_code or 2
    os.makedirs(EVID_DIR, exist_ok=True)
    final = evidence_path or os.path.join(EVID_DIR, '%s.json' % prop)
    tmp = final + '.tmp'
    with open(tmp, 'w') as f:
        f.write(_dumps(doc))
    os.replace(tmp, final)
    if not quiet:
        print('%s%s tier=%s seed=%d runs=%d distinct_nontrivial=%d states=%d checks=%d wall=%.1fs violations=%d' %
              (prop, ' [%s]' % label if label else '', tier, seed, nev, len(nontriv), len(states), checks, wall, len(viols)))
    for ln in lines:
        print(ln)
    sys.stdout.flush()
    return exit_code


def _truncate(trace, n=60):
    if isinstance(trace, list) and len(trace) > n:
        return trace[:n] + ['... %d more steps' % (len(trace) - n)]
    return trace


def replay_file(path, quiet=False):
    with open(path) as f:
        doc = json.load(f)
    prop = doc['property']
    params = doc.get('params') or None
    eng = importlib.import_module(ENGINES[prop])
    if doc.get('static'):
        viol, _ = eng.static_checks(doc.get('seed', 0))
        hit = [v for v in viol if v[0] == doc['invariant']]
        if hit:
            print('VIOLATION property=%s replay=%s' % (prop, path))
            print('  invariant=%s reproduced\n  detail: %s' % (hit[0][0], hit[0][1][:500]))
            return 1
        print('NOT-REPRODUCED property=%s replay=%s' % (prop, path))
        return 0
    if hasattr(eng, 'prepare_replay'):
        params = eng.prepare_replay(params)
    ok, norm, res = _replay_fails(prop, doc.get('tier', 'quick'), doc['choices'], doc['invariant'],
                                  doc.get('signature', {}), params)
    if ok:
        same = (res['digest'] == doc.get('digest')) if doc.get('digest') else None
        print('VIOLATION property=%s replay=%s' % (prop, path))
        print('  invariant=%s reproduced; digest_identical=%s' % (doc['invariant'], same))
        print('  detail: %s' % res['violation']['detail'][:500])
        return 1
    v = res['violation'] if res else None
    print('NOT-REPRODUCED property=%s replay=%s (got %s)' % (prop, path, v and v['invariant']))
    return 0
